#!/bin/sh
# usage: try_alt.sh <patch.diff> <prop> [<prop>...]  -- applies the patch in a scratch worktree of /repo HEAD and runs the
# quick checks against it (VERIF_REPO), never touching /repo.  The worktree is removed afterwards.
# BASE=<commit> applies the patch to that commit of /repo instead of HEAD (stored seeds name theirs in meta.json: base_commit).
diff=$1; shift
wt=/tmp/alt-$$
git -C /repo worktree add -q --detach $wt ${BASE:-HEAD} || exit 2
if ! git -C $wt apply "$diff" 2>/dev/null; then echo "PATCH-DOES-NOT-APPLY $diff"; git -C /repo worktree remove --force $wt; exit 3; fi
for p in "$@"; do
  (cd ${VERIF_ROOT:-/verif} && VERIF_REPO=$wt ./check $p --tier ${TIER:-quick} 2>&1 | grep -E "VIOLATION|KNOWN|TOOL-ERROR|\[done\]" | head -${HEAD:-3})
done
git -C /repo worktree remove --force $wt
# every scratch path leaves its own build of the crate and of the harness behind in the -alt target directories
r=${VERIF_ROOT:-/verif}
for d in $r/harness/target-alt $r/harness_aux/target-alt $r/harness_aux/target-fh-alt; do
  [ -d $d ] && [ $(du -sm $d | cut -f1) -gt 4000 ] && rm -rf $d
done
exit 0
