#!/usr/bin/env python3
"""tools/seed.py add <id> <property> <patch.diff> <demo.rs> <agent-meta.json> [--checks C03,C07] [--tier quick]

Confirms a seeded mutation in a scratch worktree of /repo (outside /repo and /verif):
  * demo passes on the unchanged tree,
  * with the patch: the crate compiles, the existing suite (plain and --all-features) passes, the demo fails;
then runs the named checks against /repo with the patch applied (and reverts it), and stores
seeded/<id>/{patch.diff, demo.rs, meta.json}.  The scratch worktree is removed afterwards."""
import json
import os
import shutil
import subprocess
import sys

ROOT = os.path.dirname(os.path.dirname(os.path.abspath(__file__)))


def run(cmd, cwd=None, env=None, timeout=1800):
    e = dict(os.environ, CARGO_NET_OFFLINE="true", CARGO_TARGET_DIR="/tmp/seed-confirm-target")
    if env:
        e.update(env)
    p = subprocess.run(cmd, cwd=cwd, env=e, stdout=subprocess.PIPE, stderr=subprocess.STDOUT, text=True, timeout=timeout, shell=isinstance(cmd, str))
    return p.returncode, p.stdout


def suite_ok(wt, extra):
    rc, out = run("cargo test --offline %s 2>&1" % extra, cwd=wt)
    failed = [l for l in out.splitlines() if l.startswith("test result:") and " 0 failed" not in l]
    return rc == 0 and not failed, out[-1500:]


def main():
    a = sys.argv[1:]
    if a[0] != "add":
        print(__doc__)
        return 2
    sid, prop, diff, demo, ameta = a[1:6]
    checks = [prop]
    tier = "quick"
    if "--checks" in a:
        checks = a[a.index("--checks") + 1].split(",")
    if "--tier" in a:
        tier = a[a.index("--tier") + 1]
    wt = "/tmp/seed-confirm-" + sid
    subprocess.run(["git", "-C", "/repo", "worktree", "remove", "--force", wt], stdout=subprocess.DEVNULL, stderr=subprocess.DEVNULL)
    base = os.environ.get("SEED_BASE", "HEAD")
    rc, out = run(["git", "-C", "/repo", "worktree", "add", "--detach", wt, base])
    base_commit = subprocess.run(["git", "-C", "/repo", "rev-parse", "--short", base], stdout=subprocess.PIPE, text=True).stdout.strip()
    if rc != 0:
        print(out)
        return 2
    ran = []
    try:
        shutil.copy(demo, os.path.join(wt, "tests", "seed_demo.rs"))
        rc, out = run("cargo test --offline --all-features --test seed_demo 2>&1", cwd=wt)
        ran.append("unchanged tree: cargo test --offline --all-features --test seed_demo -> rc=%d" % rc)
        if rc != 0:
            print("demo does not pass on the unchanged tree:\n" + out[-2000:])
            return 1
        rc, out = run(["git", "apply", diff], cwd=wt)
        if rc != 0:
            print("patch does not apply:\n" + out)
            return 1
        os.remove(os.path.join(wt, "tests", "seed_demo.rs"))
        ok1, o1 = suite_ok(wt, "")
        ok2, o2 = suite_ok(wt, "--all-features")
        ran.append("patched: cargo test --offline -> %s; --all-features -> %s" % ("pass" if ok1 else "FAIL", "pass" if ok2 else "FAIL"))
        if not (ok1 and ok2):
            print("existing suite fails with the patch:\n" + (o1 if not ok1 else o2))
            return 1
        shutil.copy(demo, os.path.join(wt, "tests", "seed_demo.rs"))
        rc, out = run("cargo test --offline --all-features --test seed_demo 2>&1", cwd=wt)
        ran.append("patched: cargo test --offline --all-features --test seed_demo -> rc=%d (must fail)" % rc)
        if rc == 0:
            print("demo passes with the patch applied: not a demonstration")
            return 1
        # detection by the registered checks, pointed at the patched scratch worktree (VERIF_REPO): /repo is not touched
        os.remove(os.path.join(wt, "tests", "seed_demo.rs"))
        detected = {}
        for c in checks:
            p = subprocess.run([os.path.join(ROOT, "check"), c, "--tier", tier], cwd=ROOT, stdout=subprocess.PIPE, stderr=subprocess.PIPE, text=True,
                               env=dict(os.environ, VERIF_REPO=wt))
            v = [l for l in p.stdout.splitlines() if l.startswith("VIOLATION")]
            detected[c] = {"exit": p.returncode, "violations": len(v), "first": v[:1]}
            ran.append("patched scratch worktree: VERIF_REPO=<worktree> ./check %s --tier %s -> exit %d, %d VIOLATION lines" % (c, tier, p.returncode, len(v)))
    finally:
        subprocess.run(["git", "-C", "/repo", "worktree", "remove", "--force", wt])
        shutil.rmtree(wt, ignore_errors=True)
    am = json.load(open(ameta)) if os.path.exists(ameta) else {}
    d = os.path.join(ROOT, "seeded", sid)
    os.makedirs(d, exist_ok=True)
    shutil.copy(diff, os.path.join(d, "patch.diff"))
    shutil.copy(demo, os.path.join(d, "demo.rs"))
    meta = {"id": sid, "property": prop, "summary": am.get("summary", ""), "needs": am.get("needs", ""), "files": am.get("files", []),
            "source": "independent sub-agent given only the property text and a scratch worktree",
            "confirmed": ran, "detected_by": detected, "base_commit": base_commit}
    json.dump(meta, open(os.path.join(d, "meta.json"), "w"), indent=1)
    print(sid, "detected_by", {k: v["exit"] for k, v in detected.items()})
    return 0


if __name__ == "__main__":
    sys.exit(main())
