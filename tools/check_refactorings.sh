#!/bin/sh
# Runs every quick check against every behaviour-preserving refactoring under seeded/_refactorings (scratch worktrees
# of /repo, VERIF_REPO): any VIOLATION or TOOL-ERROR line printed here is a false alarm of the machinery.
root=$(cd "$(dirname "$0")/.." && pwd)
bad=0
for d in "$root"/seeded/_refactorings/*.diff; do
  echo "=== $(basename $d)"
  out=$(VERIF_ROOT=$root HEAD=2 "$root"/tools/try_alt.sh "$d" C01 C02 C03 C04 C05 C06 C07 C08 C09 C10 C11 C12 C13 C14 C15 C16 C17 C18 C19 C20)
  echo "$out" | grep -E "VIOLATION|TOOL-ERROR|PATCH-DOES-NOT-APPLY" && bad=1
done
[ $bad = 0 ] && echo "no alarm on any refactoring" || echo "FALSE ALARMS above"
exit $bad
