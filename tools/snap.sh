#!/bin/sh
# usage: tools/snap.sh <dir>   -- copies the committed-or-not current /verif tree (without .git, work/, build output,
# evidence/) to <dir> so that long mutation / refactoring evaluations run from a frozen copy while /verif is edited.
# The copy has its own work/ and its own harness target directories (first build ~3 min).
d=$1
[ -n "$d" ] || { echo "usage: snap.sh <dir>"; exit 2; }
mkdir -p "$d"
rsync -a --delete --exclude .git --exclude work --exclude 'harness*/target*' --exclude evidence --exclude seeded /verif/ "$d"/
echo "snapshot of /verif at $(git -C /verif rev-parse --short HEAD) in $d"
