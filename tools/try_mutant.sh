#!/bin/sh
# usage: try_mutant.sh <patch.diff> <prop> [<prop>...]   -- applies to /repo, runs quick checks, reverts
diff=$1; shift
cd /repo || exit 2
if ! git apply --check "$diff" 2>/dev/null; then echo "PATCH-DOES-NOT-APPLY $diff"; exit 3; fi
git apply "$diff"
for p in "$@"; do
  (cd /verif && ./check $p --tier ${TIER:-quick} 2>&1 | grep -E "VIOLATION|KNOWN|TOOL-ERROR|\[done\]" | head -${HEAD:-4})
done
git checkout -- . ; git status --short | grep -v '^??' | head -3
