------------------------------- MODULE Views -------------------------------
(***************************************************************************)
(* Memory model for borrowed views and reference reinterpretation          *)
(* (C02, C10, by-reference forms of C09 split and C11 flatten/unflatten).  *)
(*                                                                         *)
(* A source buffer is a sequence of cells.  Every view-producing API must  *)
(* return windows  [off, len]  (in elements) into that very buffer - so    *)
(* aliasing is by construction: a write through window p at index i        *)
(* updates cell off_p + i, and every later read, through any window or     *)
(* through the source itself, must observe the cell contents.  The real    *)
(* code reports byte offsets (returned pointer - source pointer) and       *)
(* element counts; they must equal the model's windows.                    *)
(***************************************************************************)
EXTENDS Collect

VARIABLE mem   \* [cells, parts, esize]

W(off, len) == [off |-> off, len |-> len]
VOk(parts, cnt) == [outcome |-> "ok", parts |-> parts, cnt |-> cnt]
VFail(kind) == [outcome |-> kind, parts |-> <<>>, cnt |-> -1]

WholeApis == {"as_slice", "deref", "asref_slice", "borrow", "as_mut_slice", "deref_mut", "asmut_slice",
              "borrow_mut", "asref_array", "asmut_array", "from_array_ref", "from_array_mut"}
ElemApis == {"iter", "ref_into_iter", "iter_mut", "mut_into_iter"}
\* reinterpreting a slice of length l as an array of length n: exactly when l = n
PanicForms == {"from_slice", "from_mut_slice"}
ErrForms == {"try_from_slice", "try_from_mut_slice", "tryfrom_ref", "tryfrom_mut"}

ViewExp(api, n, l, k, m) ==
    CASE api \in WholeApis -> VOk(<<W(0, n)>>, -1)
      [] api \in ElemApis -> VOk([i \in 1..n |-> W(i - 1, 1)], -1)
      [] api \in PanicForms -> IF l = n THEN VOk(<<W(0, n)>>, -1) ELSE VFail("panic")
      [] api \in ErrForms -> IF l = n THEN VOk(<<W(0, n)>>, -1) ELSE VFail("err")
      \* indexing through Deref / DerefMut (l carries the index): one element, or the slice's bounds panic
      [] api \in {"index", "index_mut", "get"} -> IF l < n THEN VOk(<<W(l, 1)>>, -1) ELSE VFail(IF api = "get" THEN "err" ELSE "panic")
      [] api \in {"split_ref", "split_mut"} -> VOk(<<W(0, k), W(k, n - k)>>, -1)
      [] api \in {"flatten_ref", "flatten_mut"} -> VOk(<<W(0, n * m)>>, -1)
      [] api \in {"unflatten_ref", "unflatten_mut"} -> VOk(<<W(0, n * m)>>, m)
      [] api \in {"chunks_from_slice", "chunks_from_slice_mut"} ->
            IF n = 0 THEN (IF l = 0 THEN VOk(<<W(0, 0), W(0, 0)>>, 0) ELSE VFail("panic"))
            ELSE LET q == l \div n IN VOk(<<W(0, q * n), W(q * n, l - q * n)>>, q)
      [] api \in {"slice_from_chunks", "slice_from_chunks_mut"} -> VOk(<<W(0, m * n)>>, -1)
      [] api \in {"from_chunks", "from_chunks_mut", "into_chunks", "into_chunks_mut"} -> VOk(<<W(0, m * n)>>, m)

\* the partition property of C10, stated on the model itself (checked by MC_Views)
ChunksPartition(n, l) ==
    LET e == ViewExp("chunks_from_slice", n, l, 0, 0) IN
    n > 0 => /\ e.parts[1].off = 0
             /\ e.parts[1].len + e.parts[2].len = l                 \* covers, nothing beyond the end
             /\ e.parts[2].off = e.parts[1].len                      \* adjacent, no overlap
             /\ e.parts[1].len % n = 0 /\ e.parts[2].len < n         \* floor(l/n) whole chunks, remainder l mod n
             /\ e.cnt * n = e.parts[1].len

VSrc(r) ==
    /\ mem' = [cells |-> r.vals, parts |-> <<>>, esize |-> r.esize]

VView(r) ==
    /\ LET e == ViewExp(r.api, r.n, r.l, r.k, r.m) IN
       /\ r.outcome = e.outcome
       /\ Len(r.parts) = Len(e.parts)
       /\ \A i \in DOMAIN e.parts :
            /\ r.parts[i].len = e.parts[i].len
            \* same memory, not a copy; only the two empty results of the N = 0 chunk functions (constant empty
            \* slices by design) have no address to compare
            /\ (~(r.api \in {"chunks_from_slice", "chunks_from_slice_mut"} /\ r.n = 0)
                  => r.parts[i].off = e.parts[i].off * r.esize)
       /\ (e.cnt >= 0 => r.cnt = e.cnt)
       /\ r.esize = mem.esize
       /\ \A i \in DOMAIN e.parts : e.parts[i].off + e.parts[i].len <= Len(mem.cells)   \* nothing beyond the end
       /\ mem' = [mem EXCEPT !.parts = e.parts]

VWrite(r) ==
    /\ r.part \in DOMAIN mem.parts
    /\ r.idx < mem.parts[r.part].len
    /\ mem' = [mem EXCEPT !.cells[mem.parts[r.part].off + r.idx + 1] = r.val]

VRead(r) ==
    /\ IF r.part = 0 THEN r.vals = mem.cells
       ELSE /\ r.part \in DOMAIN mem.parts
            /\ r.vals = SubSeq(mem.cells, mem.parts[r.part].off + 1, mem.parts[r.part].off + mem.parts[r.part].len)
    /\ UNCHANGED mem
=============================================================================
