SPECIFICATION TraceSpec
INVARIANT AllInv
POSTCONDITION TraceAccepted
CHECK_DEADLOCK FALSE
