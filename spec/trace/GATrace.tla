------------------------------ MODULE GATrace ------------------------------
(***************************************************************************)
(* Trace specification: every line of an NDJSON trace recorded from the    *)
(* real generic-array code must be explained by an action of the contract  *)
(* specification, with the logged fields bound to the action parameters.   *)
(* All contract invariants are evaluated in every state of the trace.      *)
(*   run:  TRACE=<file> tlc -workers 1 -config GATrace.cfg GATrace.tla     *)
(***************************************************************************)
EXTENDS GAAll, Json, IOUtils

Rec == ndJsonDeserialize(IOEnv.TRACE)

VARIABLE l
tvars == <<gaVars, xVars, l>>

R == Rec[l]
Ev(k) == l <= Len(Rec) /\ Rec[l].ev = k /\ l' = l + 1

TInit == GAInit /\ XInit /\ l = 1

\* a new case: forget everything (the previous case ended Quiescent)
TCaseStart ==
    /\ Ev("case_start")
    /\ life' = <<>> /\ pool' = <<>> /\ loose' = {} /\ owed' = <<>>
    /\ op' = NoOp /\ heap' = <<>>
    /\ cfg' = [mode |-> "strict", ety |-> R.ety]
    /\ XReset

TCaseEnd == Ev("case_end") /\ Quiescent /\ XQuiescent /\ UNCHANGED <<gaVars, xVars>>

TMk == Ev("mk") /\ Mk(R.h, R.kind, R.items, R.inner, R.blk) /\ UNCHANGED xVars
TMkElem == Ev("mk_elem") /\ MkElem(R.id) /\ UNCHANGED xVars
TCall == Ev("call") /\ Call(R) /\ UNCHANGED xVars
TRet == Ev("ret") /\ (RetPlain(R) \/ RetCb(R) \/ RetX(R)) /\ UNCHANGED xVars
TUnwound == Ev("unwound") /\ (Unwound(R) \/ UnwoundX(R)) /\ UNCHANGED xVars
TCb == Ev("cb") /\ Cb(R) /\ UNCHANGED xVars
TCbRet == Ev("cb_ret") /\ CbRet(R) /\ UNCHANGED xVars
TClone == Ev("clone") /\ CloneStep(R.src, R.new) /\ UNCHANGED xVars
TClonePanic == Ev("clone_panic") /\ ClonePanicStep(R.src) /\ UNCHANGED xVars
TMkDef == Ev("mkdef") /\ DefaultStep(R.id) /\ UNCHANGED xVars
TDrop == Ev("drop") /\ (DropEv(R.id, R.panic) \/ DropX(R.id, R.panic)) /\ UNCHANGED xVars
TRelease == Ev("release") /\ Release(R.h) /\ UNCHANGED xVars
TReleased == Ev("released") /\ Released(R.h, R.panicked) /\ UNCHANGED xVars
TReleaseElem == Ev("release_elem") /\ ReleaseElem(R.id) /\ UNCHANGED xVars
TX == l <= Len(Rec) /\ l' = l + 1 /\ XEvent(R)

TNext ==
    \/ TCaseStart \/ TCaseEnd \/ TMk \/ TMkElem \/ TCall \/ TRet \/ TUnwound
    \/ TCb \/ TCbRet \/ TClone \/ TClonePanic \/ TMkDef \/ TDrop
    \/ TRelease \/ TReleased \/ TReleaseElem \/ TX

TraceSpec == TInit /\ [][TNext]_tvars

TraceAccepted ==
    LET d == TLCGet("stats").diameter IN
    IF d - 1 = Len(Rec) THEN TRUE
    ELSE Print(<<"REJECT", d, ToJson(Rec[d])>>, FALSE)

AllInv == NoAlias /\ NoDangling /\ XInv
=============================================================================
