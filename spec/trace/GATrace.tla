------------------------------ MODULE GATrace ------------------------------
(***************************************************************************)
(* Trace specification: every line of an NDJSON trace recorded from the    *)
(* real generic-array code must be explained by an action of the contract  *)
(* specification, with the logged fields bound to the action parameters.   *)
(* All contract invariants are evaluated in every state of the trace.      *)
(*   run:  TRACE=<file> tlc -workers 1 -config GATrace.cfg GATrace.tla     *)
(***************************************************************************)
EXTENDS GAAll, Json, IOUtils

Rec == ndJsonDeserialize(IOEnv.TRACE)

VARIABLE l
tvars == <<gaVars, xVars, l>>

R == Rec[l]
Ev(k) == l <= Len(Rec) /\ Rec[l].ev = k /\ l' = l + 1

TInit == GAInit /\ XInit /\ l = 1

\* a new case: forget everything (the previous case ended Quiescent)
TCaseStart ==
    /\ Ev("case_start")
    /\ hx.ended                                  \* the previous case ran to its end (or ended as specified)
    /\ life' = <<>> /\ pool' = <<>> /\ loose' = {} /\ owed' = <<>>
    /\ op' = NoOp /\ heap' = <<>>
    /\ cfg' = [mode |-> "strict", ety |-> R.ety, rec |-> R.rec, cl |-> <<>>]
    /\ XReset

TCaseEnd == /\ Ev("case_end") /\ Quiescent /\ XQuiescent /\ ~hx.failed
            /\ hx' = [hx EXCEPT !.ended = TRUE] /\ UNCHANGED <<gaVars, mem>>

(***************************************************************************)
(* Zero-sized element types cannot carry an identity, so their events log  *)
(* id 0.  For such cases TLC infers the identities: fresh ids are chosen   *)
(* by the specification, the elements an event refers to are the ones the  *)
(* specification predicts (lengths must agree with what was observed), and *)
(* an anonymous destructor run may be that of any element the library      *)
(* currently owes (elements owed in the same scope are interchangeable, so *)
(* the least one of each scope is tried).                                  *)
(***************************************************************************)
Iota(a, k) == [i \in 1..k |-> a + i - 1]
ZItems(obs, pred) == IF Len(obs) = Len(pred) THEN pred ELSE obs
RECURSIVE SortedSeq(_)
SortedSeq(S) == IF S = {} THEN <<>> ELSE LET m == SetMin(S) IN <<m>> \o SortedSeq(S \ {m})
SortedLoose == SortedSeq(loose)      \* (not a CHOOSE over [1..k -> loose]: k^k functions)

PredOuts(r) ==
    IF IsCbOp(op.name)
    THEN (IF op.name \in Folds THEN <<>>
          ELSE <<IF op.name = "iter_clone" /\ DOMAIN op.cmap = SeqRange(op.srcs[1])
                 THEN [i \in DOMAIN op.srcs[1] |-> op.cmap[op.srcs[1][i]]] ELSE op.out>>)
    ELSE IF IsCollectOp(op.name) \/ IsSerdeOp(op.name) THEN <<op.got>>
    ELSE LET e == Sem(op.name, op.srcs, op.arg, op.elems) IN [i \in DOMAIN e.outs |-> e.outs[i].items]
PredVals == IF op.name \in SearchByRef THEN op.out          \* the element find / rfind hands back
            ELSE IF IsCbOp(op.name) \/ IsCollectOp(op.name) \/ IsSerdeOp(op.name) THEN <<>>
            ELSE Sem(op.name, op.srcs, op.arg, op.elems).vals
ZObs(obs) == [i \in DOMAIN obs |->
                IF obs[i].h \in DOMAIN pool THEN [obs[i] EXCEPT !.items = ZItems(@, pool[obs[i].h].items)] ELSE obs[i]]
ZRet(r) ==
    IF ~Anonymous \/ Idle THEN r
    ELSE LET po == PredOuts(r) IN
         [r EXCEPT !.outs = [i \in DOMAIN r.outs |->
                                IF i \in DOMAIN po THEN [r.outs[i] EXCEPT !.items = ZItems(@, po[i])] ELSE r.outs[i]],
                   !.vals = ZItems(@, PredVals),
                   !.obs = ZObs(@)]
ZCall(c) == IF ~Anonymous THEN c
            ELSE [c EXCEPT !.elems = IF Len(@) <= Cardinality(loose) THEN SubSeq(SortedLoose, 1, Len(@)) ELSE @]
ZCb(b) == IF ~Anonymous \/ Idle \/ ~IsCbOp(op.name) \/ op.k >= op.n THEN b
          ELSE [b EXCEPT !.args = IF op.name = "iter_clone" THEN @
                                  ELSE ZItems(@, CbArgs(op.name, op.srcs, op.n, op.k))]
ZCbRet(b) == IF ~Anonymous THEN b ELSE [b EXCEPT !.ret = IF Len(@) = 1 THEN <<NewId>> ELSE @]
ZCloneSrc(src) ==
    IF ~Anonymous \/ Idle \/ op.name \notin {"clone", "iter_clone"} \/ op.k >= op.n THEN src
    ELSE IF op.name = "iter_clone" THEN SetMin(SeqRange(op.srcs[1]) \ DOMAIN op.cmap)
    ELSE op.srcs[1][op.k + 1]
ZId(id) == IF Anonymous THEN NewId ELSE id
\* which elements an anonymous destructor run may belong to
DropCandidates(id) ==
    IF ~Anonymous THEN {id}
    ELSE {SetMin(OwedIn(s)) : s \in {owed[e] : e \in DOMAIN owed}}
         \cup (IF ~Idle /\ (IsCollectOp(op.name) \/ IsSerdeOp(op.name)) /\ SeqRange(op.got) \ op.gdropped # {}
               THEN {SetMin(SeqRange(op.got) \ op.gdropped)} ELSE {})

TMk == /\ Ev("mk")
       /\ Mk(R.h, R.kind, IF Anonymous THEN Iota(NewId, Len(R.items)) ELSE R.items, R.inner, R.blk)
       /\ UNCHANGED xVars
TMkElem == Ev("mk_elem") /\ MkElem(ZId(R.id)) /\ UNCHANGED xVars
TCall == Ev("call") /\ Call(ZCall(R)) /\ UNCHANGED xVars
TRet == Ev("ret") /\ LET r == ZRet(R) IN (RetPlain(r) \/ RetCb(r) \/ RetCloneFrom(r) \/ RetSearch(r) \/ RetX(r)) /\ UNCHANGED xVars
TUnwound == Ev("unwound") /\ LET u == IF Anonymous THEN [R EXCEPT !.obs = ZObs(@)] ELSE R IN (Unwound(u) \/ UnwoundCloneFrom(u) \/ UnwoundSearchKeep(u) \/ UnwoundX(u))
            /\ UNCHANGED xVars
TCb == Ev("cb") /\ Cb(ZCb(R)) /\ UNCHANGED xVars
TCbRet == Ev("cb_ret") /\ CbRet(ZCbRet(R)) /\ UNCHANGED xVars
TClone == Ev("clone") /\ CloneStep(ZCloneSrc(R.src), ZId(R.new), R.nth) /\ UNCHANGED xVars
TClonePanic == Ev("clone_panic") /\ ClonePanicStep(R.src) /\ UNCHANGED xVars
TMkDef == Ev("mkdef") /\ DefaultStep(ZId(R.id)) /\ UNCHANGED xVars
TMkDefPanic == Ev("mkdef_panic") /\ DefaultPanicStep /\ UNCHANGED xVars
TDrop == /\ Ev("drop")
         /\ \E e \in DropCandidates(R.id) : (DropEv(e, R.panic) \/ DropX(e, R.panic))
         /\ UNCHANGED xVars
TRelease == Ev("release") /\ Release(R.h) /\ UNCHANGED xVars
TReleased == Ev("released") /\ Released(R.h, R.panicked) /\ UNCHANGED xVars
TReleaseElem == Ev("release_elem") /\ ReleaseElem(IF Anonymous /\ loose # {} THEN SetMin(loose) ELSE R.id) /\ UNCHANGED xVars
TX == l <= Len(Rec) /\ l' = l + 1 /\ XEvent(R)

TNext ==
    \/ TCaseStart \/ TCaseEnd \/ TMk \/ TMkElem \/ TCall \/ TRet \/ TUnwound
    \/ TCb \/ TCbRet \/ TClone \/ TClonePanic \/ TMkDef \/ TMkDefPanic \/ TDrop
    \/ TRelease \/ TReleased \/ TReleaseElem \/ TX

TraceSpec == TInit /\ [][TNext]_tvars

TraceAccepted ==
    LET d == TLCGet("stats").diameter IN
    IF d - 1 = Len(Rec) THEN TRUE
    ELSE Print(<<"REJECT", d, ToJson(Rec[d])>>, FALSE)

AllInv == NoAlias /\ NoDangling /\ XInv
=============================================================================
