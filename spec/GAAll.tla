------------------------------- MODULE GAAll -------------------------------
(***************************************************************************)
(* Everything the trace specification needs on top of the ownership        *)
(* ledger (GA): collecting from iterators (Collect), the record-level      *)
(* checks (views, layout, comparison, hex, ...) that need no ledger state. *)
(***************************************************************************)
EXTENDS Macros

Ly == INSTANCE Layout
Hx == INSTANCE Hex
Cp == INSTANCE Compare

xVars == <<mem, hx>>

NoMem == [cells |-> <<>>, parts |-> <<>>, esize |-> 0]
XInit == mem = NoMem /\ HxInit
XReset == mem' = NoMem /\ hx' = [relblk |-> <<>>, failed |-> FALSE, ended |-> FALSE]
XQuiescent == HeapQuiescent
XInv == HeapInv

RetX(r) == RetCollect(r) \/ RetDe(r) \/ RetDeInPlace(r)
UnwoundX(u) == UnwoundCollect(u)
DropX(e, panics) == CollectDrop(e, panics) \/ DeDrop(e, panics)

\* events that carry their own verdict data and need no ledger state
XEvent(r) ==
    \/ /\ r.ev = "abandon" /\ Abandon /\ UNCHANGED xVars
    \/ /\ r.ev = "hint" /\ Hint(r) /\ UNCHANGED <<mem, hx>>
    \/ /\ r.ev = "poll" /\ Poll /\ UNCHANGED <<mem, hx>>
    \/ /\ r.ev = "poll_ret"
       /\ PollRet(IF Anonymous /\ Len(r.some) = 1 THEN [r EXCEPT !.some = <<NewId>>] ELSE r)
       /\ UNCHANGED <<mem, hx>>
    \/ /\ r.ev = "vsrc" /\ VSrc(r) /\ UNCHANGED <<gaVars, hx>>
    \/ /\ r.ev = "view" /\ VView(r) /\ UNCHANGED <<gaVars, hx>>
    \/ /\ r.ev = "vwrite" /\ VWrite(r) /\ UNCHANGED <<gaVars, hx>>
    \/ /\ r.ev = "vread" /\ VRead(r) /\ UNCHANGED <<gaVars, hx>>
    \/ /\ r.ev = "alloc" /\ AllocEv(r) /\ UNCHANGED mem
    \/ /\ r.ev = "dealloc" /\ DeallocEv(r) /\ UNCHANGED mem
    \/ /\ r.ev = "realloc" /\ ReallocEv(r) /\ UNCHANGED mem
    \/ /\ r.ev = "alloc_fail" /\ AllocFailEv(r) /\ UNCHANGED mem
    \/ /\ r.ev = "exit" /\ ExitEv(r) /\ UNCHANGED mem
    \/ /\ r.ev = "ser" /\ SerOK(r) /\ UNCHANGED <<gaVars, xVars>>
    \/ /\ r.ev = "fmt" /\ FmtOK(r) /\ UNCHANGED <<gaVars, xVars>>
    \/ /\ r.ev = "de_tuple" /\ DeTuple(r) /\ UNCHANGED xVars
    \/ /\ r.ev = "shint" /\ SHint(r) /\ UNCHANGED xVars
    \/ /\ r.ev = "selem" /\ SElem /\ UNCHANGED xVars
    \/ /\ r.ev = "selem_ret" /\ SElemRet(r) /\ UNCHANGED xVars
    \/ /\ r.ev = "mkde" /\ MkDe(IF Anonymous THEN NewId ELSE r.id) /\ UNCHANGED xVars
    \/ /\ r.ev = "layout" /\ Ly!LayoutRecOK(r) /\ UNCHANGED <<gaVars, xVars>>
    \/ /\ r.ev = "elemoff" /\ Ly!ElemOffOK(r) /\ UNCHANGED <<gaVars, xVars>>
    \/ /\ r.ev = "cdef" /\ Ly!CDefOK(r) /\ UNCHANGED <<gaVars, xVars>>
    \/ /\ r.ev = "zeroize" /\ Ly!ZeroizeOK(r) /\ UNCHANGED <<gaVars, xVars>>
    \/ /\ r.ev = "zcalls" /\ Ly!ZCallsOK(r) /\ UNCHANGED <<gaVars, xVars>>
    \/ /\ r.ev = "hex" /\ Hx!HexOK(r) /\ UNCHANGED <<gaVars, xVars>>
    \/ /\ r.ev = "hexsink" /\ Hx!HexSinkOK(r) /\ UNCHANGED <<gaVars, xVars>>
    \/ /\ r.ev = "cmp" /\ Cp!CmpOK(r) /\ UNCHANGED <<gaVars, xVars>>
    \/ /\ r.ev = "cmpslice" /\ Cp!SliceAgreeOK(r) /\ UNCHANGED <<gaVars, xVars>>
    \/ /\ r.ev = "ordcmp" /\ Cp!OrdOK(r) /\ UNCHANGED <<gaVars, xVars>>
    \/ /\ r.ev = "dbg" /\ Cp!DbgOK(r) /\ UNCHANGED <<gaVars, xVars>>
    \/ /\ r.ev = "macro" /\ MacroOK(r) /\ UNCHANGED <<gaVars, xVars>>
    \/ /\ r.ev = "macro_zst" /\ MacroZstOK(r) /\ UNCHANGED <<gaVars, xVars>>
    \/ /\ r.ev = "macro_huge" /\ MacroHugeOK(r) /\ UNCHANGED <<gaVars, xVars>>
    \/ /\ r.ev = "constrt" /\ ConstRtOK(r) /\ UNCHANGED <<gaVars, xVars>>
    \/ /\ r.ev = "big" /\ BigOK(r) /\ UNCHANGED <<gaVars, xVars>>
    \/ /\ r.ev = "bigfold" /\ BigFoldOK(r) /\ UNCHANGED <<gaVars, xVars>>
    \/ /\ r.ev = "bigseq" /\ BigSeqOK(r) /\ UNCHANGED <<gaVars, xVars>>
    \/ /\ r.ev = "bigserde" /\ BigSerdeOK(r) /\ UNCHANGED <<gaVars, xVars>>
    \/ /\ r.ev = "zsthuge" /\ ZstHugeOK(r) /\ UNCHANGED <<gaVars, xVars>>
    \/ /\ r.ev = "zstviews" /\ ZstViewsOK(r) /\ UNCHANGED <<gaVars, xVars>>
    \/ /\ r.ev = "zstiter" /\ ZstIterOK(r) /\ UNCHANGED <<gaVars, xVars>>
    \/ /\ r.ev = "zstseq" /\ ZstSeqOK(r) /\ UNCHANGED <<gaVars, xVars>>
    \/ /\ r.ev = "big_done" /\ r.ok /\ UNCHANGED <<gaVars, xVars>>
=============================================================================
