------------------------------- MODULE GAAll -------------------------------
(***************************************************************************)
(* Everything the trace specification needs on top of the ownership        *)
(* ledger (GA): collecting from iterators (Collect), the record-level      *)
(* checks (views, layout, comparison, hex, ...) that need no ledger state. *)
(***************************************************************************)
EXTENDS Views

xVars == <<mem>>

NoMem == [cells |-> <<>>, parts |-> <<>>, esize |-> 0]
XInit == mem = NoMem
XReset == mem' = NoMem
XQuiescent == TRUE
XInv == TRUE

RetX(r) == RetCollect(r)
UnwoundX(u) == UnwoundCollect(u)
DropX(e, panics) == CollectDrop(e, panics)

\* events that carry their own verdict data and need no ledger state
XEvent(r) ==
    \/ /\ r.ev = "hint" /\ Hint(r) /\ UNCHANGED mem
    \/ /\ r.ev = "poll" /\ Poll /\ UNCHANGED mem
    \/ /\ r.ev = "poll_ret"
       /\ PollRet(IF Anonymous /\ Len(r.some) = 1 THEN [r EXCEPT !.some = <<NewId>>] ELSE r)
       /\ UNCHANGED mem
    \/ /\ r.ev = "vsrc" /\ VSrc(r) /\ UNCHANGED gaVars
    \/ /\ r.ev = "view" /\ VView(r) /\ UNCHANGED gaVars
    \/ /\ r.ev = "vwrite" /\ VWrite(r) /\ UNCHANGED gaVars
    \/ /\ r.ev = "vread" /\ VRead(r) /\ UNCHANGED gaVars
=============================================================================
