------------------------------ MODULE Collect ------------------------------
(***************************************************************************)
(* try_from_iter / from_iter / try_boxed_from_iter / Box::from_iter (C07). *)
(* The source iterator is caller-supplied code: its size_hint and next     *)
(* calls are callbacks inside the library call.  The source is scripted by *)
(* the harness: it may lie in size_hint, need not be fused, may panic.     *)
(*                                                                         *)
(*   Hint(lo, hi)  a size_hint call answered (hi = -1: no upper bound)     *)
(*   Poll          next() called: never after the source returned None,    *)
(*                 never more than N + 1 times                             *)
(*   PollRet       Some(e) (e is born now) | None | panic                  *)
(*   Ret           Ok only if exactly N items were produced and then None; *)
(*                 Ok whenever that happened and the hint did not rule N   *)
(*                 out and was truthful; Ok => contents are the items in   *)
(*                 order; Err => every pulled item was dropped once        *)
(***************************************************************************)
EXTENDS GA

RulesOut(h, n) == h.at = 0 /\ (h.lo > n \/ (h.hi >= 0 /\ h.hi < n))
Ruled == \E i \in DOMAIN op.hints : RulesOut(op.hints[i], op.n)
\* (the builders' own `extend' fills the slots from a source and stops; it never probes for a surplus: the
\*  caller gets an array exactly when all N slots were filled, otherwise everything written is dropped)
Exact == IF op.name = "builder_extend" THEN Len(op.got) = op.n ELSE Len(op.got) = op.n /\ op.sawNone

\* what the driver knows about the scripted source beyond what was observed: op.arg = 1 says that it yields exactly N
\* items and then ends - a collector that gives up without asking for the end cannot hide behind not having seen it
SourceIsExact == op.arg = 1 /\ Len(op.got) = op.n
\* every pulled item has been dropped exactly once (vacuous for element types without destructor)
AllGotDropped == ~Tracked \/ op.gdropped = SeqRange(op.got)
LifeAfterFailure == IF Tracked THEN life
                    ELSE [e \in DOMAIN life |-> IF e \in SeqRange(op.got) THEN "dropped" ELSE life[e]]

Hint(r) ==
    /\ ~Idle /\ IsCollectOp(op.name) /\ op.phase = "idle"
    /\ op' = [op EXCEPT !.hints = Append(@, [lo |-> r.lo, hi |-> r.hi, at |-> op.polls])]
    /\ UNCHANGED <<life, pool, loose, owed, heap, cfg>>

Poll ==
    /\ ~Idle /\ IsCollectOp(op.name) /\ op.phase = "idle"
    /\ ~op.sawNone                       \* never polled again after None
    /\ op.polls <= op.n                  \* at most N + 1 polls
    /\ op' = [op EXCEPT !.polls = @ + 1, !.phase = "incb"]
    /\ UNCHANGED <<life, pool, loose, owed, heap, cfg>>

\* r = [some, panic]
PollRet(r) ==
    /\ ~Idle /\ IsCollectOp(op.name) /\ op.phase = "incb"
    /\ IF r.panic
       THEN /\ op' = [op EXCEPT !.phase = "unwinding"]
            /\ UNCHANGED life
       ELSE IF r.some = <<>>
       THEN /\ op' = [op EXCEPT !.phase = "idle", !.sawNone = TRUE]
            /\ UNCHANGED life
       ELSE /\ Len(r.some) = 1 /\ ~Known(r.some[1])
            /\ life' = BornFn({r.some[1]})
            /\ op' = [op EXCEPT !.phase = "idle", !.got = Append(@, r.some[1])]
    /\ UNCHANGED <<pool, loose, owed, heap, cfg>>

\* the library drops an item it pulled (only legitimate on the failure paths;
\* RetCollect checks that)
CollectDrop(e, panics) ==
    /\ ~Idle /\ IsCollectOp(op.name) /\ op.phase \in {"idle", "unwinding"}
    /\ e \in SeqRange(op.got) \ op.gdropped /\ Live(e)
    /\ life' = [life EXCEPT ![e] = "dropped"]
    /\ op' = [op EXCEPT !.gdropped = @ \cup {e},
                        !.phase = IF panics THEN "unwinding" ELSE @]
    /\ cfg' = IF panics THEN [cfg EXCEPT !.mode = "lenient"] ELSE cfg
    /\ UNCHANGED <<pool, loose, owed, heap>>

PanickingForm == op.name \in {"from_iter", "boxed_from_iter"}
ExpectedMsg == "GenericArray::from_iter expected " \o ToString(op.n) \o " items"

RetCollect(r) ==
    /\ ~Idle /\ IsCollectOp(op.name) /\ op.phase = "idle"
    /\ r.vals = <<>> /\ r.obs = <<>>
    /\ OpOwedEmpty                                      \* the source (and what it owned) has been dropped
    /\ IF r.err
       THEN /\ ~PanickingForm
            /\ r.outs = <<>>
            /\ AllGotDropped                             \* every pulled item dropped exactly once
            /\ ~((Exact \/ SourceIsExact) /\ ~Ruled /\ op.truthful)   \* a truthful exact source must succeed
            /\ life' = LifeAfterFailure
            /\ UNCHANGED pool
       ELSE /\ Exact                                     \* Ok only for exactly N items, then None
            /\ op.gdropped = {}
            /\ OutsMatch(r.outs, <<MkVal(op.okind, op.got, 0)>>)
            /\ AllLive(op.got)
            /\ pool' = PoolWith(pool, r.outs)
            /\ UNCHANGED life
    /\ op' = NoOp
    /\ UNCHANGED <<loose, owed, heap, cfg>>

\* from_iter / collect panic with the documented message instead of Err;
\* any form unwinds if the source itself panicked
UnwoundCollect(u) ==
    /\ ~Idle /\ IsCollectOp(op.name)
    /\ (Strict => OpOwedEmpty)                          \* the source (and what it owned) has been dropped
    /\ \/ /\ op.phase = "unwinding"                       \* the source (or a destructor) panicked
          /\ (Strict => AllGotDropped)
       \/ /\ op.phase = "idle" /\ PanickingForm           \* the length-error panic
          /\ u.has_expected_msg                          \* the message says: expected N items
          /\ AllGotDropped
          /\ ~((Exact \/ SourceIsExact) /\ ~Ruled /\ op.truthful)
    \* (after a destructor panic - lenient mode - what was not dropped, the source's own values included, may leak)
    /\ life' = [e \in DOMAIN life |->
                  IF e \in (SeqRange(op.got) \ op.gdropped) \cup OwedIn(OpScope)
                  THEN (IF Tracked THEN "abandoned" ELSE "dropped") ELSE life[e]]
    /\ owed' = Restrict(owed, DOMAIN owed \ OwedIn(OpScope))
    /\ op' = NoOp
    /\ UNCHANGED <<pool, loose, heap, cfg>>
=============================================================================
