------------------------------ MODULE MacroDefs ------------------------------
\* The literal-syntax contract of arr! / box_arr! (C20); variable-free so that MC_Macros can use it alone.
EXTENDS Integers, Sequences

Iota1(k, base) == [i \in 1..k |-> base + i - 1]
Copies(k, v) == [i \in 1..k |-> v]

MacroOK(r) ==
    \* ("hyg_" forms: the same invocations made in a module where vec!, Box, Vec, core, alloc, std ... name the
    \*  caller's own items; "repeat_constgeneric": the constant length is a const generic parameter of the enclosing fn)
    CASE r.form \in {"list", "list_trailing", "list_noncopy", "hyg_list"} ->
            /\ r.evals = Iota1(r.k, 0) /\ r.items = Iota1(r.k, 1000) /\ r.len = r.k
            /\ r.bevals = r.evals /\ r.bitems = r.items /\ r.blen = r.k
      [] r.form = "const_list" ->
            /\ r.evals = <<>> /\ r.items = Iota1(r.k, 1000) /\ r.len = r.k /\ r.bitems = r.items /\ r.blen = r.k
      [] r.form \in {"repeat_ty", "repeat_const", "hyg_repeat_ty", "hyg_repeat_const", "repeat_constgeneric"} ->
            /\ r.evals = <<7>> /\ r.items = Copies(r.k, 1007) /\ r.len = r.k
            /\ r.bevals = <<7>> /\ r.bitems = r.items /\ r.blen = r.k
      [] r.form = "const_repeat" ->
            /\ r.evals = <<>> /\ r.items = Copies(r.k, 1007) /\ r.len = r.k /\ r.bitems = r.items /\ r.blen = r.k
      [] r.form = "box_repeat_noncopy" ->
            /\ r.bevals = <<7>> /\ r.bitems = Copies(r.k, 1007) /\ r.blen = r.k

\* type-level lengths beyond 32 bits (only arrays of zero-sized elements can have them): the Box holds exactly N elements;
\* N and the observed length travel as two 32-bit halves
MacroHugeOK(r) == r.len_hi = r.k_hi /\ r.len_lo = r.k_lo

\* zero-sized elements with a destructor: the array / Box holds k live elements - none of them is dropped while
\* it is alive (in the repeat form the operand value itself may or may not be consumed: at most that one drop)
\* and exactly k are dropped with it
MacroZstOK(r) == /\ r.len = r.k /\ r.after = r.k
                 /\ IF r.form = "box_repeat_zst" THEN r.while_alive \in {0, 1} ELSE r.while_alive = 0
=============================================================================
