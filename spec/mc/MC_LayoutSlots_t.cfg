SPECIFICATION Spec
CONSTANTS
    Depth = 11
    ElemLayouts <- LayoutLattice
INVARIANTS Bijection PredictionAgrees
CHECK_DEADLOCK FALSE
