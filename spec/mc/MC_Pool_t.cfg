SPECIFICATION Spec
CONSTANTS
    MaxLen = 3
    MaxVals = 2
    MaxIds = 8
    MaxSteps = 5
INVARIANTS Inv
VIEW LedgerView
CHECK_DEADLOCK FALSE
