SPECIFICATION Spec
CONSTANTS
    MaxN = 3
    Variant = "fixed"
INVARIANTS NoZeroSizeRequest NullNeverTouched FailureEndsInStdPath NoLeak LayoutRoundTrip Emit
CHECK_DEADLOCK FALSE
