SPECIFICATION Spec
CONSTANTS
    MaxN = 3
    ConsumerBump = "after_call"
    BuilderBump = "after_write"
INVARIANTS NoDoubleDrop NoBadAccess InputsAccounted OutputsAccounted HandedNotDropped 
CHECK_DEADLOCK FALSE
