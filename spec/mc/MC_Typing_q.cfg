SPECIFICATION Spec
CONSTANTS
    MaxN = 2
INVARIANTS Consistent ArrayFollowsElement Emit
CHECK_DEADLOCK FALSE
