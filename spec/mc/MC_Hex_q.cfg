SPECIFICATION Spec
CONSTANTS
    SmallNs <- SmallQ
    BigNs <- BigQ
    ChunkBudget = "min"
INVARIANTS MatchesDefinition Safe Emit
CHECK_DEADLOCK FALSE
