SPECIFICATION Spec
CONSTANTS
    MaxLen = 4
    MaxVals = 3
    MaxIds = 60
    MaxSteps = 14
INVARIANTS Inv EmitHist

CHECK_DEADLOCK FALSE
