SPECIFICATION Spec
CONSTANTS
    MaxN = 3
    Faults = TRUE
    NthOrder = "drop_then_advance"
    CloneOwner = "iterator_first"
ACTION_CONSTRAINT EmitTr
VIEW View
CHECK_DEADLOCK FALSE
