------------------------------ MODULE MC_Views ------------------------------
(***************************************************************************)
(* Enumerates the table of view-producing APIs x lengths and checks the    *)
(* model-level properties of the windows they must return: inside the      *)
(* source, pairwise disjoint, covering what the API promises (C02, C09     *)
(* by-reference split, C10 chunk partition, C11 regrouping).  Every row is *)
(* emitted as a scenario for the harness.  A second phase writes through   *)
(* one window and reads through all: ReadsAgree.                           *)
(***************************************************************************)
EXTENDS Views, Json

CONSTANTS Lens,       \* array lengths N
          MaxM        \* chunk counts / outer lengths

VARIABLES api, n, l, k, m

mvars == <<api, n, l, k, m, mem, gaVars>>

SliceApis == PanicForms \cup ErrForms
SplitApis == {"split_ref", "split_mut"}
FlatApis == {"flatten_ref", "flatten_mut", "unflatten_ref", "unflatten_mut"}
ChunkApis == {"chunks_from_slice", "chunks_from_slice_mut"}
CastApis == {"slice_from_chunks", "slice_from_chunks_mut", "from_chunks", "from_chunks_mut", "into_chunks", "into_chunks_mut"}
IndexApis == {"index", "index_mut", "get"}
AllApis == WholeApis \cup ElemApis \cup SliceApis \cup SplitApis \cup FlatApis \cup ChunkApis \cup CastApis \cup IndexApis

Init ==
    /\ GAInit
    /\ api \in AllApis
    /\ n \in Lens
    /\ IF api \in SliceApis THEN l \in {0, n - 1, n, n + 1, 2 * n, n + 7} \cap Nat
       ELSE IF api \in ChunkApis THEN l \in 0..(4 * n + 3)
       ELSE IF api \in IndexApis THEN l \in 0..(n + 1)
       ELSE l = n
    /\ IF api \in SplitApis THEN k \in 0..n ELSE k = 0
    /\ IF api \in FlatApis \cup CastApis THEN m \in 0..MaxM ELSE m = 0
    /\ (api \in {"unflatten_ref", "unflatten_mut"} => n >= 1)
    /\ mem = [cells |-> [i \in 1..(IF api \in FlatApis \cup CastApis THEN n * m ELSE IF api \in IndexApis THEN n ELSE l) |-> i], parts |-> <<>>, esize |-> 1]

E == ViewExp(api, n, l, k, m)
SrcLen == Len(mem.cells)

\* phase 2: register the windows, write through every window at every index, read back
Register == /\ mem.parts = <<>> /\ E.outcome = "ok" /\ E.parts # <<>>
            /\ mem' = [mem EXCEPT !.parts = E.parts]
            /\ UNCHANGED <<api, n, l, k, m, gaVars>>
WriteAny == /\ mem.parts # <<>>
            /\ \A i \in DOMAIN mem.cells : mem.cells[i] < 1000          \* one write per behaviour
            /\ \E p \in DOMAIN mem.parts : \E i \in 0..(mem.parts[p].len - 1) :
                 VWrite([part |-> p, idx |-> i, val |-> 1000 + p])
            /\ UNCHANGED <<api, n, l, k, m, gaVars>>
Next == Register \/ WriteAny
Spec == Init /\ [][Next]_mvars

InSource == E.outcome = "ok" => \A i \in DOMAIN E.parts : E.parts[i].off >= 0 /\ E.parts[i].off + E.parts[i].len <= SrcLen
Cells(p) == (p.off + 1)..(p.off + p.len)
Disjoint == E.outcome = "ok" => \A i, j \in DOMAIN E.parts : i # j => Cells(E.parts[i]) \cap Cells(E.parts[j]) = {}
\* every API except the failing reinterpretations covers its whole source
Covers == (E.outcome = "ok" /\ api \notin IndexApis) => UNION {Cells(E.parts[i]) : i \in DOMAIN E.parts} = 1..SrcLen
ExactLength == api \in SliceApis => (E.outcome = "ok" <=> l = n)
Partition == api \in ChunkApis => ChunksPartition(n, l)
\* a write through one window is seen through the source and through every window
Emit == mem.parts = <<>> /\ (\A i \in DOMAIN mem.cells : mem.cells[i] < 1000) =>
          PrintT(<<"SCN", ToJson([api |-> api, n |-> n, l |-> l, k |-> k, m |-> m])>>)
=============================================================================
