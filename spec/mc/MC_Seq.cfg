SPECIFICATION Spec
CONSTANTS
    MaxN = 8
INVARIANTS InBounds Partition EqualsVec Emit
CHECK_DEADLOCK FALSE
