SPECIFICATION Spec
CONSTANTS
    MaxN = 3
    Alphabet = {0, 1, 9}
INVARIANTS Antisymmetric EqIffZero Reflexive Emit
CHECK_DEADLOCK FALSE
