SPECIFICATION Spec
CONSTANTS
    MaxN = 3
    Variant = "as_found"
INVARIANTS NoZeroSizeRequest NullNeverTouched FailureEndsInStdPath NoLeak LayoutRoundTrip 
CHECK_DEADLOCK FALSE
