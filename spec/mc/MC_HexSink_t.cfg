SPECIFICATION Spec
CONSTANTS
    Ns <- NsT
    ErrPolicy = "propagate"
INVARIANTS SinkContract PiecesCover Emit
CHECK_DEADLOCK FALSE
