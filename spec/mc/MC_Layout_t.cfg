SPECIFICATION Spec
CONSTANTS
    Depth = 11
    ElemLayouts <- LayoutLattice
INVARIANTS SameAsNative Bijection PredictionAgrees
CHECK_DEADLOCK FALSE
