SPECIFICATION Spec
CONSTANTS
    Ns <- NsQ
    ErrPolicy = "propagate"
INVARIANTS SinkContract PiecesCover Emit
CHECK_DEADLOCK FALSE
