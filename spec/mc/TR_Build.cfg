SPECIFICATION Spec
CONSTANTS
    MaxN = 3
    ConsumerBump = "before_call"
    BuilderBump = "after_write"
INVARIANTS EmitTrace
CHECK_DEADLOCK FALSE
