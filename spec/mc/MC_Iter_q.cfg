SPECIFICATION Spec
CONSTANTS
    MaxN = 5
    Faults = FALSE
    NthOrder = "advance_then_drop"
    CloneOwner = "iterator_first"
INVARIANTS IndexOK NoDoubleDrop NoStaleAccess NoCloneLeak WindowLive NoLeak
ACTION_CONSTRAINT Emit
VIEW View
CHECK_DEADLOCK FALSE
