SPECIFICATION Spec
CONSTANTS
    MaxN = 5
    Faults = FALSE
    NthOrder = "advance_then_drop"
INVARIANTS IndexOK NoDoubleDrop NoStaleAccess WindowLive NoLeak
ACTION_CONSTRAINT Emit
VIEW View
CHECK_DEADLOCK FALSE
