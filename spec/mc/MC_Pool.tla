------------------------------ MODULE MC_Pool ------------------------------
(***************************************************************************)
(* Exhaustive / simulated exploration of the ownership contract (C03):     *)
(* any finite history of ownership-moving operations over a small pool of  *)
(* values, chained (outputs of one are inputs of the next).  The actions   *)
(* are the contract actions of GA.tla themselves (Call, Cb, CbRet, DropEv, *)
(* RetPlain, RetCb, Release, ...), driven with the results the contract    *)
(* predicts, so the ledger invariants are checked on the design, and every *)
(* explored history is a well-typed operation script that the harness can  *)
(* execute on the real code (`hist', printed by EmitHist).                 *)
(***************************************************************************)
EXTENDS GA, Json

CONSTANTS MaxLen,      \* longest array
          MaxVals,     \* values in the pool at once
          MaxIds,      \* element ids ever created
          MaxSteps     \* operations per history

VARIABLES hist, nexth

mvars == <<gaVars, hist, nexth>>

Handles == DOMAIN pool
LenOf(h) == Len(pool[h].items)
KindOf(h) == pool[h].kind
IdsLeft == MaxIds - Cardinality(DOMAIN life)
Steps == Len(hist)

Init == GAInit /\ hist = <<>> /\ nexth = 1

Step(s) == hist' = Append(hist, s)

NoneArg == -1
C(name, recv, byval, arg, elems, n, okind) ==
    [op |-> name, recv |-> recv, byval |-> byval, arg |-> arg, elems |-> elems, n |-> n,
     okind |-> okind, truthful |-> TRUE, spare |-> FALSE]

(* ---- the caller creates and lets go of values ---------------------------- *)
MkKinds == {"arr", "native", "tuple", "vec", "bslice", "box"}
DoMk ==
    /\ Idle /\ Steps < MaxSteps /\ Cardinality(Handles) < MaxVals
    /\ \E n \in 0..MaxLen : \E kind \in MkKinds :
         /\ n <= IdsLeft
         /\ (kind = "tuple" => n >= 1)
         /\ Mk(nexth, kind, [i \in 1..n |-> NewId + i - 1], 0, 0)
         /\ Step([op |-> "mk", n |-> n, kind |-> kind])
    /\ nexth' = nexth + 1

DoMkNested ==
    /\ Idle /\ Steps < MaxSteps /\ Cardinality(Handles) < MaxVals
    /\ \E inner \in 0..MaxLen : \E outer \in 0..MaxLen :
         /\ inner * outer <= MaxLen /\ inner * outer <= IdsLeft
         /\ Mk(nexth, "nested", [i \in 1..(inner * outer) |-> NewId + i - 1], inner, 0)
         /\ Step([op |-> "mk", n |-> outer, kind |-> "nested", inner |-> inner])
    /\ nexth' = nexth + 1

DoMkElem ==
    /\ Idle /\ Steps < MaxSteps /\ IdsLeft >= 1 /\ Cardinality(loose) < 2
    /\ MkElem(NewId)
    /\ Step([op |-> "mk_elem"])
    /\ UNCHANGED nexth

DoRelease ==
    /\ Idle /\ owed = <<>>
    /\ \E h \in Handles : Release(h) /\ Step([op |-> "release", h |-> h])
    /\ UNCHANGED nexth

DoReleaseElem ==
    /\ Idle /\ owed = <<>> /\ loose # {}
    /\ ReleaseElem(SetMin(loose)) /\ Step([op |-> "release_elem", pick |-> 0])
    /\ UNCHANGED nexth

(* ---- calls ---------------------------------------------------------------- *)
\* operations on one by-value array
ArrOps1 == {"pop_back", "pop_front", "into_iter", "into_array", "into_native", "into_tuple", "box_new",
            "vec_from_arr", "bslice_from_arr"}
ConvFrom == [native |-> {"from_array", "from_native"}, tuple |-> {"from_tuple"},
             box |-> {"unbox", "into_boxed_slice", "into_vec", "box_into_iter"},
             bslice |-> {"bslice_into_vec"}, vec |-> {"vec_into_bslice"},
             arr |-> ArrOps1, iter |-> {"count", "last"}, nested |-> {"flatten"}, viter |-> {}]
IterRefOps == {"next", "next_back", "len", "debug"}

ScriptCall(c, forms) == [op |-> c.op, recv |-> c.recv, form |-> forms, arg |-> c.arg,
                         pick |-> IF c.elems = <<>> THEN -1 ELSE 0,
                         side |-> IF c.arg = 1 THEN "l" ELSE "r", pform |-> "own"]

StartCall(c, forms) == Call(c) /\ Step(ScriptCall(c, forms)) /\ UNCHANGED nexth

DoCall ==
    /\ Idle /\ owed = <<>> /\ Steps < MaxSteps
    /\ \E h \in Handles :
         LET n == LenOf(h) k == KindOf(h) IN
         \/ \E o \in ConvFrom[k] :
              /\ (o \in {"pop_back", "pop_front"} => n >= 1)
              /\ (o = "into_tuple" => n >= 1)
              /\ StartCall(C(o, <<h>>, <<TRUE>>, NoneArg, <<>>, n, "arr"), <<"own">>)
         \/ /\ k = "arr"
            /\ \/ \E i \in 0..(n + 1) : \E o \in {"remove", "swap_remove"} :
                    n >= 1 /\ StartCall(C(o, <<h>>, <<TRUE>>, i, <<>>, n, "arr"), <<"own">>)
               \/ \E kk \in 0..n : StartCall(C("split", <<h>>, <<TRUE>>, kk, <<>>, n, "arr"), <<"own">>)
               \/ \E inner \in 1..MaxLen : n % inner = 0 /\
                    StartCall(C("unflatten", <<h>>, <<TRUE>>, inner, <<>>, n, "arr"), <<"own">>)
               \/ /\ loose # {} /\ n < MaxLen
                  /\ \E o \in {"append", "prepend"} :
                       StartCall(C(o, <<h>>, <<TRUE>>, NoneArg, <<SetMin(loose)>>, n, "arr"), <<"own">>)
               \/ \E h2 \in Handles \ {h} :
                    /\ KindOf(h2) = "arr" /\ n + LenOf(h2) <= MaxLen
                    /\ StartCall(C("concat", <<h, h2>>, <<TRUE, TRUE>>, NoneArg, <<>>, n, "arr"), <<"own", "own">>)
               \* zip with a plain array of another element type, tracked operand on either side (arg = side)
               \/ \E sd \in {0, 1} : IdsLeft >= n /\ StartCall(C("zipx", <<h>>, <<TRUE>>, sd, <<>>, n, "arr"), <<"own">>)
               \/ \E o \in {"map", "fold"} : IdsLeft >= n /\ StartCall(C(o, <<h>>, <<TRUE>>, NoneArg, <<>>, n, "arr"), <<"own">>)
               \/ /\ IdsLeft >= n
                  /\ StartCall(C("clone", <<h>>, <<FALSE>>, NoneArg, <<>>, n, "arr"), <<"ref">>)
               \/ \E h2 \in Handles \ {h} :
                    /\ KindOf(h2) = "arr" /\ LenOf(h2) = n /\ IdsLeft >= n
                    /\ StartCall(C("zip", <<h, h2>>, <<TRUE, TRUE>>, NoneArg, <<>>, n, "arr"), <<"own", "own">>)
               \* Clone::clone_from: h is overwritten with clones of h2
               \/ \E h2 \in Handles \ {h} :
                    /\ KindOf(h2) = "arr" /\ LenOf(h2) = n /\ IdsLeft >= n
                    /\ StartCall(C("clone_from", <<h, h2>>, <<FALSE, FALSE>>, NoneArg, <<>>, n, "arr"), <<"ref", "ref">>)
         \/ /\ k = "iter"
            /\ \/ \E o \in IterRefOps : StartCall(C(o, <<h>>, <<FALSE>>, NoneArg, <<>>, n, "arr"), <<"ref">>)
               \/ \E a \in 0..(n + 1) : \E o \in {"nth", "nth_back"} :
                    StartCall(C(o, <<h>>, <<FALSE>>, a, <<>>, n, "arr"), <<"ref">>)
               \/ \E tgt \in {n, n + 1} \cup (IF n > 0 THEN {n - 1} ELSE {}) : \E o \in {"collect_iter", "collect_iter_take"} :
                    StartCall(C(o, <<h>>, <<TRUE>>, tgt, <<>>, n, "arr"), <<"own">>)
               \/ \E o \in {"iter_fold", "iter_rfold"} : StartCall(C(o, <<h>>, <<TRUE>>, NoneArg, <<>>, n, "arr"), <<"own">>)
               \/ /\ IdsLeft >= n
                  /\ StartCall(C("iter_clone", <<h>>, <<FALSE>>, NoneArg, <<>>, n, "arr"), <<"ref">>)
               \* searching consumers: the scripted predicate ends the search at call sa (-1: never)
               \/ \E o \in SearchOps : \E sa \in -1..(n - 1) :
                    StartCall(C(o, <<h>>, <<FALSE>>, sa, <<>>, n, "arr"), <<"ref">>)
         \/ /\ k \in {"vec", "bslice"}
            /\ \E tgt \in {n, n + 1} : \E o \in (IF k = "vec" THEN {"try_from_vec", "arr_try_from_vec"}
                                                 ELSE {"try_from_boxed_slice", "arr_try_from_bslice"}) :
                 tgt <= MaxLen + 1 /\ StartCall(C(o, <<h>>, <<TRUE>>, tgt, <<>>, n, "arr"), <<"own">>)

(* ---- inside a call: the library drops what it owes, callbacks run, the call returns ---- *)
DoDrop ==
    /\ owed # <<>>
    /\ DropEv(SetMin(DOMAIN owed), FALSE)
    /\ UNCHANGED <<hist, nexth>>

DoCb ==
    \* (clone_from: what the destination held may be dropped before, between or after the clones)
    /\ ~Idle /\ IsCbOp(op.name) /\ op.phase = "idle" /\ op.k < op.n /\ (owed = <<>> \/ op.name \in CloneFromOps)
    /\ IF op.name \in {"clone", "iter_clone"} \cup CloneFromOps
       THEN CloneStep(IF op.name = "clone" THEN op.srcs[1][op.k + 1]
                      ELSE IF op.name = "clone_from" THEN op.srcs[2][op.k + 1]
                      ELSE SetMin(SeqRange(CloneSrcSeq) \ DOMAIN op.cmap), NewId, -1)
       ELSE Cb([k |-> op.k, idx |-> op.k, args |-> CbArgs(op.name, op.srcs, op.n, op.k), acc |-> op.acc,
                pv |-> IF op.name = "zipx" THEN op.k ELSE -1])
    /\ UNCHANGED <<hist, nexth>>

\* the harness closure lets go of every by-value argument and returns a fresh element
DoCbBody ==
    /\ ~Idle /\ IsCbOp(op.name) /\ op.phase = "incb"
    /\ IF \E e \in SeqRange(op.cur) : e \in loose
       THEN ReleaseElem(CHOOSE e \in SeqRange(op.cur) : e \in loose)
       ELSE /\ owed = <<>>
            /\ IF op.name \in SearchOps
               THEN CbRet([k |-> op.k, ret |-> <<>>, acc |-> IF op.k = op.arg THEN 1 ELSE 0, panic |-> FALSE])
               ELSE CbRet([k |-> op.k, ret |-> IF op.name \in Folds THEN <<>> ELSE <<NewId>>,
                           acc |-> op.acc + 1, panic |-> FALSE])
    /\ UNCHANGED <<hist, nexth>>

OutRecs(outs) == [i \in DOMAIN outs |->
                    [h |-> nexth + i - 1, kind |-> outs[i].kind, items |-> outs[i].items,
                     inner |-> outs[i].inner, blk |-> 0]]
ObsOf == [i \in {j \in DOMAIN op.recv : ~op.byval[j]} |-> i]
DoRet ==
    /\ ~Idle /\ op.phase = "idle" /\ OpOwedEmpty
    /\ \/ /\ ~IsCbOp(op.name)
          /\ LET e == Sem(op.name, op.srcs, op.arg, op.elems)
                 outs == OutRecs(e.outs)
             IN /\ RetPlain([outs |-> outs, vals |-> e.vals, obs |-> <<>>, res |-> e.res, err |-> e.err,
                             dbg |-> "", dbgref |-> ""])
                /\ nexth' = nexth + Len(outs)
       \/ /\ op.name \in CloneFromOps /\ op.k = op.n
          /\ RetCloneFrom([outs |-> <<>>, vals |-> <<>>, res |-> -1, err |-> FALSE,
                           obs |-> <<[h |-> op.recv[1], items |-> CloneFromItems, len |-> -1, lo |-> -1, hi |-> -1],
                                     [h |-> op.recv[2], items |-> op.srcs[2], len |-> -1, lo |-> -1, hi |-> -1]>>])
          /\ UNCHANGED nexth
       \/ /\ op.name \in SearchOps /\ (op.stopped \/ op.k = op.n)
          /\ RetSearch([outs |-> <<>>, obs |-> <<>>, err |-> FALSE,
                        vals |-> IF op.name \in SearchByRef THEN op.out ELSE <<>>,
                        res |-> CASE op.name = "iter_position" -> (IF op.stopped THEN op.k - 1 ELSE -1)
                                  [] op.name = "iter_rposition" -> (IF op.stopped THEN op.n - op.k ELSE -1)
                                  [] op.name \in {"iter_any", "iter_find_map"} -> (IF op.stopped THEN 1 ELSE 0)
                                  [] op.name = "iter_all" -> (IF op.stopped THEN 0 ELSE 1)
                                  [] OTHER -> -1])
          /\ UNCHANGED nexth
       \/ /\ IsCbOp(op.name) /\ op.name \notin CloneFromOps \cup SearchOps /\ op.k = op.n
          /\ LET items == IF op.name = "iter_clone" THEN [i \in DOMAIN op.srcs[1] |-> op.cmap[op.srcs[1][i]]]
                          ELSE op.out
                 okind == CASE op.name = "iter_clone" -> "iter"
                            [] op.name \in {"clone", "map", "zip", "zipx"} -> op.kinds[1]
                            [] OTHER -> op.okind
                 outs == IF op.name \in Folds THEN <<>> ELSE OutRecs(<<MkVal(okind, items, 0)>>)
             IN /\ RetCb([outs |-> outs, vals |-> <<>>, obs |-> <<>>, res |-> op.acc, err |-> FALSE])
                /\ nexth' = nexth + Len(outs)
    /\ UNCHANGED hist

DoUnwound ==
    /\ ~Idle /\ op.phase = "unwinding" /\ OpOwedEmpty
    /\ Unwound([obs |-> <<>>, msg |-> "", has_expected_msg |-> FALSE])
    /\ UNCHANGED <<hist, nexth>>

Next == DoMk \/ DoMkNested \/ DoMkElem \/ DoRelease \/ DoReleaseElem \/ DoCall
        \/ DoDrop \/ DoCb \/ DoCbBody \/ DoRet \/ DoUnwound

Spec == Init /\ [][Next]_mvars

(* ---- properties of the design ------------------------------------------------ *)
\* every element that exists is in exactly one place
Accounted ==
    \A e \in DOMAIN life :
        life[e] = "live" =>
            Cardinality({h \in Handles : e \in Window(h)}) + (IF e \in loose THEN 1 ELSE 0)
              + (IF e \in DOMAIN owed THEN 1 ELSE 0) <= 1
\* when the caller holds nothing and no call is in flight, everything has been dropped (no leak)
NoLeak == (Idle /\ pool = <<>> /\ loose = {} /\ owed = <<>>) => \A e \in DOMAIN life : life[e] = "dropped"
Inv == NoAlias /\ NoDangling /\ Accounted /\ NoLeak

(* ---- scenario emission --------------------------------------------------------- *)
\* a history is printed when it is complete: nothing in flight and the step budget used up
Complete == Idle /\ owed = <<>> /\ Steps = MaxSteps
EmitHist == Complete => PrintT(<<"SCN", ToJson([steps |-> hist])>>)
\* exhaustive runs identify states by the ledger, not by the path
LedgerView == <<life, pool, loose, owed, op, nexth, Steps>>
=============================================================================
