SPECIFICATION Spec
CONSTANTS
    MaxN = 3
    Probe = TRUE
INVARIANTS OkOnlyIfExact OkIfExactAndNotRuled PollBound NeverAfterNone PanicOnlyFromSource Emit
CHECK_DEADLOCK FALSE
