SPECIFICATION Spec
CONSTANTS
    MaxN = 3
    ConsumerBump = "before_call"
    BuilderBump = "before_write"
INVARIANTS NoDoubleDrop NoBadAccess InputsAccounted OutputsAccounted HandedNotDropped 
CHECK_DEADLOCK FALSE
