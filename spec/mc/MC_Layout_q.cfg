SPECIFICATION Spec
CONSTANTS
    Depth = 7
    ElemLayouts <- LayoutLattice
INVARIANTS SameAsNative Bijection PredictionAgrees
CHECK_DEADLOCK FALSE
