SPECIFICATION Spec
CONSTANTS
    SmallNs <- Small17
    BigNs <- BigT
    ChunkBudget = "min"
INVARIANTS MatchesDefinition Safe Emit
CHECK_DEADLOCK FALSE
