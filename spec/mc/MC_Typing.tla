------------------------------ MODULE MC_Typing ------------------------------
\* Enumerates the three tables of Typing.tla; one state per row; every row is emitted.
EXTENDS Typing, TLC, Json

CONSTANTS MaxN

VARIABLES kind, op, n, m, k, tr, cont, elem, api, mis, twin, rel

vars == <<kind, op, n, m, k, tr, cont, elem, api, mis, twin, rel>>

Init ==
    \/ /\ kind = "len" /\ op \in LenOps
       /\ n \in 0..MaxN /\ m \in 0..MaxN /\ k \in 0..(MaxN * 2)
       /\ (op \in {"pop_back", "pop_front", "remove", "into_array", "from_array", "asref_array", "into_tuple", "from_tuple",
                   "append_ann", "prepend_ann", "pop_ann", "map_ann", "from_slice_infer",
                   "from_chunks", "from_chunks_mut", "into_chunks", "into_chunks_mut", "const_len", "const_len_into"} => m = 0)
       /\ (op \in {"zip", "eq", "lt", "pop_back", "pop_front", "remove", "inverted_zip", "inverted_zip2", "inverted_zip2_ref"} => k = 0)
       /\ (op = "split" => m = 0)
       /\ (op \in {"into_tuple", "from_tuple"} => n >= 1 /\ k >= 1)
       /\ (op = "unflatten_ann" => m >= 1 /\ n % m = 0)        \* the quotient type must exist to name the row
       /\ (op = "split_ann" => m <= n)
       /\ (op = "pop_ann" => n >= 1)
       /\ (op = "zip_ann" => n = m)
       /\ tr = "" /\ cont = "" /\ elem = "" /\ api = "" /\ mis = "" /\ twin = FALSE /\ rel = ""
    \/ /\ kind = "bound" /\ tr \in BoundTraits /\ cont \in Containers /\ (cont = "iter" => tr = "Debug") /\ twin = FALSE
       /\ elem \in BoundElems /\ (elem = "super" => Supers(tr) # {})
       /\ op = "" /\ n = 3 /\ m = 0 /\ k = 0 /\ api = "" /\ mis = "" /\ rel = ""
    \/ /\ kind = "generic" /\ rel \in GenericRels /\ twin \in BOOLEAN
       /\ op = "" /\ n = 0 /\ m = 0 /\ k = 0 /\ tr = "" /\ cont = "" /\ elem = "" /\ api = "" /\ mis = ""
    \/ /\ kind = "trait" /\ tr \in Traits /\ cont \in Containers /\ elem \in Elems
       /\ op = "" /\ n = 3 /\ m = 0 /\ k = 0 /\ api = "" /\ mis = "" /\ twin = FALSE /\ rel = ""
    \/ /\ kind = "borrow" /\ api \in RefApis /\ mis \in Misuses /\ Applies(api, mis) /\ twin \in BOOLEAN
       /\ op = "" /\ n = 3 /\ m = 0 /\ k = 0 /\ tr = "" /\ cont = "" /\ elem = "" /\ rel = ""
Next == UNCHANGED vars
Spec == Init /\ [][Next]_vars

Verdict == CASE kind = "len" -> Accept(op, n, m, k)
             [] kind = "trait" -> HasContainer(tr, cont, elem)
             [] kind = "borrow" -> twin            \* the twin (reference used before the conflicting action) is accepted
             [] kind = "bound" -> BoundOK(tr, elem)  \* elem: which of the trait and its supertraits the element type has
             [] kind = "generic" -> twin           \* the declared relation is provable, the undeclared one is not
Consistent == kind = "len" => ConsistentWithDynamic(op, n, m, k)
\* the array has an auto trait exactly when its element type has it
ArrayFollowsElement == kind = "trait" /\ cont = "array" => (Verdict <=> Has(tr, elem))
Emit == PrintT(<<"SCN", ToJson([kind |-> kind, op |-> op, n |-> n, m |-> m, k |-> k, tr |-> tr, cont |-> cont, elem |-> elem,
                               api |-> api, mis |-> mis, twin |-> twin, rel |-> rel, accept |-> Verdict])>>)
=============================================================================
