SPECIFICATION Spec
CONSTANTS
    MaxLen = 2
    MaxVals = 2
    MaxIds = 6
    MaxSteps = 4
INVARIANTS Inv EmitHist
VIEW LedgerView
CHECK_DEADLOCK FALSE
