SPECIFICATION Spec
CONSTANTS
    MaxN = 4
    Alphabet = {0, 1, 2, 9}
INVARIANTS Antisymmetric EqIffZero Reflexive Emit
CHECK_DEADLOCK FALSE
