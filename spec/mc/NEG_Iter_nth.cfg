SPECIFICATION Spec
CONSTANTS
    MaxN = 3
    Faults = TRUE
    NthOrder = "drop_then_advance"
    CloneOwner = "iterator_first"
INVARIANTS IndexOK NoDoubleDrop NoStaleAccess NoCloneLeak
VIEW View
CHECK_DEADLOCK FALSE
