SPECIFICATION Spec
CONSTANTS
    MaxN = 3
    Faults = TRUE
    NthOrder = "drop_then_advance"
INVARIANTS IndexOK NoDoubleDrop NoStaleAccess
VIEW View
CHECK_DEADLOCK FALSE
