SPECIFICATION Spec
CONSTANTS
    Lens = {0, 1, 2, 3, 4, 7, 8}
    MaxM = 3
INVARIANTS InSource Disjoint Covers ExactLength Partition Emit
CHECK_DEADLOCK FALSE
