SPECIFICATION Spec
CONSTANTS
    MaxK = 4
INVARIANTS AcceptsExactlyInOrder
CHECK_DEADLOCK FALSE
