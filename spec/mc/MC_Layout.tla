------------------------------ MODULE MC_Layout ------------------------------
(***************************************************************************)
(* Exhaustive check of the layout recursion: for every length N up to      *)
(* 2^Depth - 1 (every even/odd digit pattern of that depth) and every      *)
(* element layout (size s a multiple of the alignment a, including s = 0)  *)
(* the storage type has the size, alignment and element offsets of the     *)
(* native array [T; N]: in particular its T slots are exactly the offsets  *)
(* i*s, each once (C01, and the slot bijection behind C19).                *)
(* One TLC state per (digit string, element layout); Push appends a digit. *)
(***************************************************************************)
EXTENDS Layout, TLC

CONSTANTS Depth, ElemLayouts

\* <<size, align>>: size a multiple of align (or zero); padded tuples, packed structs and over-aligned
\* zero-sized types all reduce to such a pair
LayoutLattice ==
    {p \in {0, 1, 2, 3, 4, 5, 6, 8, 12, 16, 24, 32, 48, 64, 96, 128, 256, 4096} \X {1, 2, 4, 8, 16, 32, 64, 128, 256, 4096} : p[1] % p[2] = 0}

VARIABLES n, d, node, s, a

vars == <<n, d, node, s, a>>

Init == /\ \E p \in ElemLayouts : s = p[1] /\ a = p[2]
        /\ n = 0 /\ d = 0
        /\ node = BaseTy(s, a)

Push(b) == /\ d < Depth
           /\ (d = 0 => b = 1)                   \* typenum numerals have no leading zero digit
           /\ n' = 2 * n + b /\ d' = d + 1
           /\ node' = IF b = 0 THEN Even(node, s, a) ELSE Odd(node, s, a)
           /\ UNCHANGED <<s, a>>
Next == Push(0) \/ Push(1)
Spec == Init /\ [][Next]_vars

SameAsNative ==
    /\ node.size = n * s
    /\ node.align = a
    /\ (s > 0 => node.slots = {i * s : i \in 0..(n - 1)})
\* every element slot is reached exactly once by the structural traversal (parent1, parent2, data)
SlotCount(nd, nn) == s > 0 => Cardinality(nd.slots) = nn
Bijection == SlotCount(node, n)
\* the incremental state agrees with the closed-form prediction used for trace validation
RECURSIVE BitsOf(_)
BitsOf(k) == IF k = 0 THEN <<>> ELSE Append(BitsOf(k \div 2), k % 2)
PredictionAgrees == d <= 6 => Storage(BitsOf(n), s, a) = node
=============================================================================
