------------------------------ MODULE MC_Iter ------------------------------
\* Exhaustive exploration of the iterator mechanism model; prints one scenario per transition.
EXTENDS MechIter
=============================================================================
