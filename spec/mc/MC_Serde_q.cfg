SPECIFICATION Spec
CONSTANTS
    MaxN = 2
INVARIANTS OkOnlyIfExactly OkIfExactlyAndHonest PollBound ErrorAtKRejected Emit
CHECK_DEADLOCK FALSE
