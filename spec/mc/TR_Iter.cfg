SPECIFICATION Spec
CONSTANTS
    MaxN = 3
    Faults = TRUE
    NthOrder = "advance_then_drop"
    CloneOwner = "iterator_first"
ACTION_CONSTRAINT EmitTr
VIEW View
CHECK_DEADLOCK FALSE
