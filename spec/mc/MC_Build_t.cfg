SPECIFICATION Spec
CONSTANTS
    MaxN = 6
    ConsumerBump = "before_call"
    BuilderBump = "after_write"
INVARIANTS NoDoubleDrop NoBadAccess InputsAccounted OutputsAccounted HandedNotDropped EmitInit
CHECK_DEADLOCK FALSE
