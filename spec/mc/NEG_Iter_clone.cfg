SPECIFICATION Spec
CONSTANTS
    MaxN = 3
    Faults = TRUE
    NthOrder = "advance_then_drop"
    CloneOwner = "array_then_wrap"
INVARIANTS IndexOK NoDoubleDrop NoStaleAccess NoCloneLeak
VIEW View
CHECK_DEADLOCK FALSE
