SPECIFICATION Spec
CONSTANTS
    Ns <- NsQ
    ErrPolicy = "last_wins"
INVARIANTS SinkContract PiecesCover
CHECK_DEADLOCK FALSE
