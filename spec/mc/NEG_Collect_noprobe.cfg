SPECIFICATION Spec
CONSTANTS
    MaxN = 2
    Probe = FALSE
INVARIANTS OkOnlyIfExact OkIfExactAndNotRuled PollBound NeverAfterNone PanicOnlyFromSource 
CHECK_DEADLOCK FALSE
