SPECIFICATION Spec
CONSTANTS
    Depth = 7
    ElemLayouts <- LayoutLattice
INVARIANTS Bijection PredictionAgrees
CHECK_DEADLOCK FALSE
