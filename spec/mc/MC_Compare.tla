----------------------------- MODULE MC_Compare -----------------------------
(***************************************************************************)
(* Enumerates all pairs of sequences over the alphabet for N <= MaxN and   *)
(* checks that the lexicographic definition is a sound partial order       *)
(* (antisymmetry, consistency of = with 0 on NaN-free operands,            *)
(* reflexivity exactly without NaN); every pair is emitted as a scenario.  *)
(***************************************************************************)
EXTENDS Compare, TLC, Json

CONSTANTS MaxN, Alphabet

VARIABLES a, b
vars == <<a, b>>

Seqs(k) == [1..k -> Alphabet]
Init == \E k \in 0..MaxN : a \in Seqs(k) /\ b \in Seqs(k)
Next == UNCHANGED vars
Spec == Init /\ [][Next]_vars

HasNaN(s) == \E i \in DOMAIN s : s[i] = NaN
Antisymmetric == LET p == LexPartial(a, b) q == LexPartial(b, a) IN
                    (p = -1 <=> q = 1) /\ (p = 0 <=> q = 0) /\ (p = 2 <=> q = 2)
EqIffZero == EqSeq(a, b) <=> LexPartial(a, b) = 0
Reflexive == LexPartial(a, a) = (IF HasNaN(a) THEN 2 ELSE 0)
Emit == PrintT(<<"SCN", ToJson([a |-> a, b |-> b])>>)
=============================================================================
