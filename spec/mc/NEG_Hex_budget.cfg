SPECIFICATION Spec
CONSTANTS
    SmallNs <- SmallQ
    BigNs <- BigQ
    ChunkBudget = "full"
INVARIANTS MatchesDefinition Safe 
CHECK_DEADLOCK FALSE
