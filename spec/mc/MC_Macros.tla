------------------------------ MODULE MC_Macros ------------------------------
(***************************************************************************)
(* The literal-syntax contract of arr! as a tiny state machine: evaluating *)
(* `arr![e0, ..., ek]' is k+1 evaluation steps, each appending the value   *)
(* to the result; the final state is accepted by Macros!MacroOK.  Checked  *)
(* for every count up to MaxK: MacroOK accepts exactly the in-order,       *)
(* once-each evaluation (a skipped, repeated or out-of-order evaluation is *)
(* rejected).                                                              *)
(***************************************************************************)
EXTENDS MacroDefs, TLC

CONSTANTS MaxK

VARIABLES k, evals, items

vars == <<k, evals, items>>

Init == k \in 0..MaxK /\ evals = <<>> /\ items = <<>>
\* evaluate any not-yet-final expression index (the model allows wrong orders; MacroOK must reject them)
Eval(i) == /\ Len(evals) < k
           /\ evals' = Append(evals, i) /\ items' = Append(items, 1000 + i) /\ UNCHANGED k
Next == \E i \in 0..(k - 1) : Eval(i)
Spec == Init /\ [][Next]_vars

R == [form |-> "list", k |-> k, evals |-> evals, items |-> items, len |-> Len(items),
      bevals |-> evals, bitems |-> items, blen |-> Len(items)]
InOrder == evals = [i \in 1..k |-> i - 1]
AcceptsExactlyInOrder == (Len(evals) = k) => (MacroOK(R) <=> InOrder)
=============================================================================
