SPECIFICATION Spec
CONSTANTS
    MaxN = 4
INVARIANTS Consistent ArrayFollowsElement Emit
CHECK_DEADLOCK FALSE
