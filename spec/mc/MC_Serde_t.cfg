SPECIFICATION Spec
CONSTANTS
    MaxN = 4
INVARIANTS OkOnlyIfExactly OkIfExactlyAndHonest PollBound ErrorAtKRejected Emit
CHECK_DEADLOCK FALSE
