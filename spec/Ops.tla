------------------------------- MODULE Ops -------------------------------
(***************************************************************************)
(* Pure (state-free) semantics of every ownership-moving public operation *)
(* of generic-array, written over sequences of element identities.        *)
(*                                                                         *)
(* A value is  [kind, items, inner]:                                       *)
(*   kind  \in {"arr","iter","box","vec","bslice","native","tuple",        *)
(*              "nested","viter"}                                          *)
(*   items : the element ids in index order (for "iter": the elements      *)
(*           still to come, front first; for "nested": row-major reading)  *)
(*   inner : inner length of a "nested" value, 0 otherwise                 *)
(*                                                                         *)
(* Sem(name, srcs, arg, elems) gives, for a call of operation `name' on    *)
(* operands whose contents are srcs[1..], with integer argument `arg' and  *)
(* by-value element arguments `elems', the record                          *)
(*   ok    : FALSE iff the call must panic                                 *)
(*   outs  : the values returned (in the order the harness logs them)      *)
(*   vals  : the single elements handed back to the caller                 *)
(*   recv  : the new contents of operand 1 if it was passed by reference   *)
(*   later : elements that the library must drop before operand 1 is gone  *)
(*   res   : an integer result (len, count), or -1                         *)
(*   err   : TRUE iff the call returns its error value (LengthError)       *)
(* Everything moved into the call that is in none of these must have been  *)
(* dropped by the time the call returns (see Proto!Ret).                   *)
(*                                                                         *)
(* The right-hand sides are the Vec / VecDeque operations the properties   *)
(* (C03, C06, C09, C11, C15) refer to, written with SubSeq and \o.         *)
(***************************************************************************)
EXTENDS Integers, Sequences, FiniteSets

SeqRange(s) == {s[i] : i \in DOMAIN s}
Min(a, b) == IF a < b THEN a ELSE b
Max(a, b) == IF a > b THEN a ELSE b
TakeN(s, k) == SubSeq(s, 1, k)
DropN(s, k) == SubSeq(s, k + 1, Len(s))
LastOf(s) == s[Len(s)]
FrontOf(s) == SubSeq(s, 1, Len(s) - 1)
NoDup(s) == Cardinality(SeqRange(s)) = Len(s)

MkVal(kind, items, inner) == [kind |-> kind, items |-> items, inner |-> inner]

None == <<>>
Some(e) == <<e>>

Res(ok, outs, vals, recv, later, res, err) ==
    [ok |-> ok, outs |-> outs, vals |-> vals, recv |-> recv, later |-> later, res |-> res, err |-> err]
Plain(outs, vals) == Res(TRUE, outs, vals, <<>>, {}, -1, FALSE)
Panics == Res(FALSE, <<>>, <<>>, <<>>, {}, -1, FALSE)
Fails == Res(TRUE, <<>>, <<>>, <<>>, {}, -1, TRUE)

(* ---- Vec-like operations on arrays (C09) ------------------------------ *)
VecRemove(s, i) == TakeN(s, i) \o DropN(s, i + 1)                \* i is 0-based
VecSwapRemove(s, i) ==
    IF i = Len(s) - 1 THEN FrontOf(s) ELSE [FrontOf(s) EXCEPT ![i + 1] = LastOf(s)]

(* ---- conversions that keep every element at its position -------------- *)
ConvKind == [into_array |-> "native", from_array |-> "arr", into_native |-> "native",
             from_native |-> "arr", into_tuple |-> "tuple", from_tuple |-> "arr",
             into_iter |-> "iter", box_new |-> "box", unbox |-> "arr",
             into_boxed_slice |-> "bslice", into_vec |-> "vec",
             vec_from_arr |-> "vec", bslice_from_arr |-> "bslice",
             box_into_iter |-> "viter", bslice_into_vec |-> "vec", vec_into_bslice |-> "bslice",
             box_clone |-> "box"]
IsConv(name) == name \in DOMAIN ConvKind

(* conversions that succeed exactly when the source length is `arg' (C15) *)
TryKind == [try_from_boxed_slice |-> "box", try_from_vec |-> "box",
            arr_try_from_vec |-> "arr", arr_try_from_bslice |-> "arr"]
IsTry(name) == name \in DOMAIN TryKind

(* ---- the by-value iterator as a double-ended queue (C06) --------------- *)
IterOps == {"next", "next_back", "nth", "nth_back", "len", "size_hint", "as_slice",
            "as_mut_swap", "count", "last", "debug"}

Sem(name, srcs, arg, elems) ==
    LET s == IF Len(srcs) >= 1 THEN srcs[1] ELSE <<>>
        n == Len(s)
    IN
    CASE name = "append"    -> Plain(<<MkVal("arr", s \o <<elems[1]>>, 0)>>, <<>>)
      [] name = "prepend"   -> Plain(<<MkVal("arr", <<elems[1]>> \o s, 0)>>, <<>>)
      [] name = "pop_back"  -> Plain(<<MkVal("arr", FrontOf(s), 0)>>, <<LastOf(s)>>)
      [] name = "pop_front" -> Plain(<<MkVal("arr", Tail(s), 0)>>, <<Head(s)>>)
      [] name = "split"     -> Plain(<<MkVal("arr", TakeN(s, arg), 0), MkVal("arr", DropN(s, arg), 0)>>, <<>>)
      [] name = "concat"    -> Plain(<<MkVal("arr", s \o srcs[2], 0)>>, <<>>)
      [] name = "remove"    -> IF arg < n THEN Plain(<<MkVal("arr", VecRemove(s, arg), 0)>>, <<s[arg + 1]>>)
                               ELSE Panics
      [] name = "swap_remove" -> IF arg < n THEN Plain(<<MkVal("arr", VecSwapRemove(s, arg), 0)>>, <<s[arg + 1]>>)
                               ELSE Panics
      [] name = "flatten"   -> Plain(<<MkVal("arr", s, 0)>>, <<>>)
      [] name = "unflatten" -> Plain(<<MkVal("nested", s, arg)>>, <<>>)
      [] IsConv(name)       -> Plain(<<MkVal(ConvKind[name], s, 0)>>, <<>>)
      \* collecting a by-value iterator into an array of length `arg' (through an adaptor that hides the
      \* exact size): succeeds exactly when the remaining length is `arg', otherwise everything is dropped
      [] name = "collect_iter" -> IF n = arg THEN Plain(<<MkVal("arr", s, 0)>>, <<>>) ELSE Fails
      \* the same through `.take(arg)': the first `arg' elements make the array, the source - and what it still holds -
      \* is the library's to drop; fewer than `arg' elements: everything is dropped
      [] name = "collect_iter_take" -> IF n >= arg THEN Plain(<<MkVal("arr", TakeN(s, arg), 0)>>, <<>>) ELSE Fails
      [] IsTry(name)        -> IF n = arg THEN Plain(<<MkVal(TryKind[name], s, 0)>>, <<>>) ELSE Fails
      (* iterator, by reference *)
      [] name = "next"      -> IF n = 0 THEN Res(TRUE, <<>>, None, s, {}, -1, FALSE)
                               ELSE Res(TRUE, <<>>, Some(Head(s)), Tail(s), {}, -1, FALSE)
      [] name = "next_back" -> IF n = 0 THEN Res(TRUE, <<>>, None, s, {}, -1, FALSE)
                               ELSE Res(TRUE, <<>>, Some(LastOf(s)), FrontOf(s), {}, -1, FALSE)
      [] name = "nth"       -> LET k == Min(arg, n)
                                   r == DropN(s, k)
                               IN IF r = <<>> THEN Res(TRUE, <<>>, None, r, SeqRange(TakeN(s, k)), -1, FALSE)
                                  ELSE Res(TRUE, <<>>, Some(Head(r)), Tail(r), SeqRange(TakeN(s, k)), -1, FALSE)
      [] name = "nth_back"  -> LET k == Min(arg, n)
                                   r == TakeN(s, n - k)
                               IN IF r = <<>> THEN Res(TRUE, <<>>, None, r, SeqRange(DropN(s, n - k)), -1, FALSE)
                                  ELSE Res(TRUE, <<>>, Some(LastOf(r)), FrontOf(r), SeqRange(DropN(s, n - k)), -1, FALSE)
      [] name \in {"len", "size_hint", "as_slice", "debug"} -> Res(TRUE, <<>>, <<>>, s, {}, n, FALSE)
      \* serialising borrows the array and leaves it untouched (what the Serializer saw is a `ser' record)
      [] name = "serialize" -> Res(TRUE, <<>>, <<>>, s, {}, -1, FALSE)
      [] name = "as_mut_swap" -> Res(TRUE, <<>>, <<s[arg + 1]>>, [s EXCEPT ![arg + 1] = elems[1]], {}, -1, FALSE)
      (* iterator, by value *)
      [] name = "count"     -> Res(TRUE, <<>>, <<>>, <<>>, {}, n, FALSE)
      [] name = "last"      -> IF n = 0 THEN Res(TRUE, <<>>, None, <<>>, {}, -1, FALSE)
                               ELSE Res(TRUE, <<>>, Some(LastOf(s)), <<>>, {}, -1, FALSE)

(* Which operand lengths make a call well-typed (the static guards; C12 uses
   the same table).  `ns' are the operand lengths.                          *)
Defined(name, ns, arg) ==
    CASE name \in {"pop_back", "pop_front", "remove", "swap_remove"} -> ns[1] >= 1
      [] name = "split"     -> arg <= ns[1]
      [] name = "unflatten" -> arg >= 1 /\ ns[1] % arg = 0
      [] name = "as_mut_swap" -> arg < ns[1]
      [] OTHER -> TRUE

(* ---- callback operations (C08): what callback number k (0-based) is given *)
CbOps == {"generate", "map", "zip", "zipx", "fold", "clone", "default", "iter_fold", "iter_rfold", "iter_clone",
          "clone_from", "iter_clone_from",
          "iter_position", "iter_rposition", "iter_any", "iter_all", "iter_find", "iter_rfind", "iter_find_map"}
\* Clone::clone_from(dst, src): operand 1 is the destination (overwritten), operand 2 the source (cloned)
CloneFromOps == {"clone_from", "iter_clone_from"}
(* Searching consumers of the by-value iterator, called on `&mut iter' (provided methods of Iterator /
   DoubleEndedIterator that an implementation may override): the predicate is the callback; it sees the elements one
   by one from the front (or the back), by value (position, rposition, any, all) or by reference (find, rfind), until
   its answer ends the search; visited elements leave the iterator, the rest stay.  `arg' is the call index at which
   the scripted predicate gives the ending answer (-1: never).                                                    *)
SearchByVal == {"iter_position", "iter_rposition", "iter_any", "iter_all", "iter_find_map"}
SearchByRef == {"iter_find", "iter_rfind"}
SearchOps == SearchByVal \cup SearchByRef
BackSearch == {"iter_rposition", "iter_rfind"}
\* index (1-based) of the operand element(s) callback k receives
CbPos(name, n, k) == IF name \in {"iter_rfold", "iter_rposition", "iter_rfind"} THEN n - k ELSE k + 1
CbArgs(name, srcs, n, k) ==
    IF name \in {"generate", "default"} THEN <<>>
    ELSE [i \in DOMAIN srcs |-> srcs[i][CbPos(name, n, k)]]
\* kind of the value a callback operation returns (none for folds)
Folds == {"fold", "iter_fold", "iter_rfold"}
=============================================================================
