--------------------------------- MODULE Hex ---------------------------------
(***************************************************************************)
(* Hex formatting of byte arrays (C14).  Characters are ASCII codes.       *)
(*   Digits(bytes, upper)  two digits per byte, index order, high nibble   *)
(*                         first, lower- or upper-case alphabet            *)
(*   Expected(bytes, p, upper)  the first min(p, 2N) characters of Digits  *)
(*                         (p < 0: no precision)                           *)
(* The byte patterns used by the harness and the model are functions of    *)
(* the index so that only the pattern name travels in the trace.           *)
(***************************************************************************)
EXTENDS Integers, Sequences

HexDigit(v, upper) == IF v < 10 THEN 48 + v ELSE (IF upper THEN 55 ELSE 87) + v

PatByte(pat, i) ==            \* i is 0-based
    CASE pat = "zero" -> 0
      [] pat = "ff" -> 255
      [] pat = "all" -> i % 256
      [] OTHER -> (7 * i + 3) % 256
Bytes(n, pat) == [i \in 1..n |-> PatByte(pat, i - 1)]

Digits(bytes, upper) ==
    [j \in 1..(2 * Len(bytes)) |->
        LET b == bytes[(j + 1) \div 2] IN HexDigit(IF j % 2 = 1 THEN b \div 16 ELSE b % 16, upper)]
HexMin(a, b) == IF a < b THEN a ELSE b
Expected(bytes, p, upper) ==
    SubSeq(Digits(bytes, upper), 1, IF p < 0 THEN 2 * Len(bytes) ELSE HexMin(p, 2 * Len(bytes)))

\* the same, computed digit by digit from the pattern (no 2N-element intermediate: N may be 2^20)
DigitAt(pat, j, upper) == LET b == PatByte(pat, ((j + 1) \div 2) - 1) IN HexDigit(IF j % 2 = 1 THEN b \div 16 ELSE b % 16, upper)
ExpectedP(n, pat, p, upper) == [j \in 1..(IF p < 0 THEN 2 * n ELSE HexMin(p, 2 * n)) |-> DigitAt(pat, j, upper)]

HexOK(r) == r.out = ExpectedP(r.n, r.pat, r.prec, r.upper)

(* Formatting into a sink of capacity r.cap that refuses (as a whole) any piece which does not fit:      *)
(* the formatter reports success exactly when the sink never refused; success means the sink holds the   *)
(* whole expected string; and when that string fits, no piece can have been refused.  How the output is  *)
(* cut into pieces, and what the sink holds after a refusal, is not constrained.                         *)
HexSinkOK(r) ==
    LET e == ExpectedP(r.n, r.pat, r.prec, r.upper) IN
    /\ r.ok = ~r.failed
    /\ r.ok => r.out = e
    /\ Len(e) <= r.cap => r.ok
=============================================================================
