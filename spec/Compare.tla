------------------------------- MODULE Compare -------------------------------
(***************************************************************************)
(* Comparison, hashing and Debug of arrays (C13), over sequences of small  *)
(* element codes.  Code 9 stands for an element that is incomparable with  *)
(* everything including itself (f64::NAN); all other codes are ordered as  *)
(* integers (the harness maps them monotonically onto u8, i32, f64,        *)
(* String and nested arrays).                                              *)
(*   EqSeq        element-wise equality (NaN # NaN)                        *)
(*   LexPartial   lexicographic partial_cmp: the first index at which the  *)
(*                elements are not equal decides; an incomparable pair at  *)
(*                that index gives None (2); -1 / 0 / 1 otherwise          *)
(*   HashFeed     what hashing a slice feeds a Hasher: the length prefix   *)
(*                first, then the elements                                 *)
(***************************************************************************)
EXTENDS Integers, Sequences

NaN == 9
ElemEq(x, y) == x # NaN /\ y # NaN /\ x = y
ElemCmp(x, y) == IF x = NaN \/ y = NaN THEN 2 ELSE IF x < y THEN -1 ELSE IF x = y THEN 0 ELSE 1

EqSeq(a, b) == Len(a) = Len(b) /\ \A i \in DOMAIN a : ElemEq(a[i], b[i])

RECURSIVE LexFrom(_, _, _)
LexFrom(a, b, i) ==
    IF i > Len(a) \/ i > Len(b)
    THEN (IF Len(a) < Len(b) THEN -1 ELSE IF Len(a) = Len(b) THEN 0 ELSE 1)
    ELSE LET c == ElemCmp(a[i], b[i]) IN IF c = 0 THEN LexFrom(a, b, i + 1) ELSE c
LexPartial(a, b) == LexFrom(a, b, 1)

\* the array's answers = the definition = the slice's answers
CmpOK(r) ==
    LET p == LexPartial(r.a, r.b) IN
    /\ r.eq = EqSeq(r.a, r.b) /\ r.ne = ~EqSeq(r.a, r.b)
    \* comparing an array with ITSELF (the same object) is no exception: not reflexive when an element is not
    /\ r.self_eq = EqSeq(r.a, r.a) /\ r.sself_eq = r.self_eq /\ r.self_pcmp = LexPartial(r.a, r.a)
    /\ r.self_ne = ~EqSeq(r.a, r.a)
    /\ r.pcmp = p
    /\ r.lt = (p = -1) /\ r.le = (p \in {-1, 0}) /\ r.gt = (p = 1) /\ r.ge = (p \in {0, 1})
    /\ r.seq = r.eq /\ r.sne = r.ne /\ r.slt = r.lt /\ r.sle = r.le /\ r.sgt = r.gt /\ r.sge = r.ge
    /\ r.spcmp = r.pcmp

\* total orders: cmp; hashing feeds exactly what the slice feeds, starting with the length prefix;
\* a map keyed by arrays can be probed with a slice (Borrow<[T]>): found iff the key is equal
OrdOK(r) ==
    /\ r.cmp = LexPartial(r.a, r.b) /\ r.scmp = r.cmp
    /\ r.hash = r.shash
    /\ Len(r.hash) >= 2 /\ r.hash[1] = 1 /\ r.hash[2] = Len(r.a)
    /\ r.found_hash = (r.a = r.b) /\ r.found_btree = (r.a = r.b)
    \* (r.nhash, the feed of the same elements as native nested arrays, is recorded but not demanded: the property's
    \*  oracle is the array's own slice, and Hash::hash_slice of an element type may legitimately differ from std's)
    \* the provided methods of Ord follow cmp: max is the second operand unless the first is greater, min the first
    \* unless it is greater (element codes; for the zero-sized nested type every code is -1 on both sides)
    /\ (\A i \in DOMAIN r.max : r.max[i] >= 0) =>
          /\ r.max = (IF r.cmp = 1 THEN r.a ELSE r.b)
          /\ r.min = (IF r.cmp = 1 THEN r.b ELSE r.a)

\* an element type whose Ord is finer than its PartialOrd (a total-order float key): no definition over codes applies -
\* each method of the array agrees with the same method of its slice
\* (the operators and the provided max / min may be derived from either cmp or partial_cmp - std's own choice differs
\*  between versions - so they are demanded only where this pair of operands is ordered alike by both)
SliceAgreeOK(r) ==
    /\ r.cmp = r.scmp /\ r.pcmp = r.spcmp /\ r.eq = r.seq
    /\ (r.scmp = r.spcmp) => /\ r.lt = r.slt /\ r.ge = r.sge
                             /\ r.max = r.smax /\ r.min = r.smin

\* Debug output under any flags equals the slice's (the slice is the oracle; TLA+ carries the equality)
DbgOK(r) == r.arr = r.slice
=============================================================================
