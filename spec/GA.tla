-------------------------------- MODULE GA --------------------------------
(***************************************************************************)
(* Contract layer of the generic-array specification.                      *)
(*                                                                         *)
(* State: an ownership ledger.  Every element value that ever exists has   *)
(* an identity; at every moment it is in exactly one place:                *)
(*    - inside a value the caller owns            (pool[h].items)          *)
(*    - held by the caller as a single element    (loose)                  *)
(*    - inside a library call that is in flight   (op ...)                  *)
(*    - owed: the library has taken responsibility for dropping it (owed)  *)
(*    - gone (life[e] = "dropped"), or leaked after a destructor panic     *)
(*      (life[e] = "abandoned", allowed only in lenient mode, C05)         *)
(*                                                                         *)
(* Public operations are Call ... Ret/Unwound brackets; callbacks          *)
(* (closures, Clone, Default, source iterators, serde sequences) and       *)
(* destructor runs happen inside the bracket.  The same actions are used   *)
(* by the exhaustive model-checking wrappers (spec/mc) and by the trace    *)
(* specification (spec/trace/GATrace.tla), which binds their parameters to *)
(* the fields logged from the real code.                                   *)
(***************************************************************************)
EXTENDS Ops, TLC

VARIABLES
    life,    \* [Id -> {"live","dropped","abandoned"}]
    pool,    \* [Handle -> [kind, items, inner, blk]]
    loose,   \* SUBSET Id
    owed,    \* [Id -> scope]   scope \in {<<"op">>, <<"val",h>>, <<"caller">>}
    op,      \* the call in flight, or NoOp
    heap,    \* [Block -> [size, align]]  live heap blocks (alloc feature)
    cfg      \* [mode |-> "strict"|"lenient", ety |-> "tk"|"zst"|"plain"|"plz"]

gaVars == <<life, pool, loose, owed, op, heap, cfg>>

Restrict(f, S) == [x \in S |-> f[x]]
NoOp == [name |-> "none"]
Idle == op.name = "none"
Tracked == cfg.ety \in {"tk", "zst"}
Anonymous == cfg.ety \in {"zst", "plz"}      \* zero-sized elements carry no identity in the log ("plz": no destructor either)
SetMax(S) == CHOOSE x \in S : \A y \in S : y <= x
SetMin(S) == CHOOSE x \in S : \A y \in S : x <= y
NewId == IF DOMAIN life = {} THEN 1 ELSE SetMax(DOMAIN life) + 1
Strict == cfg.mode = "strict"

Known(e) == e \in DOMAIN life
Live(e) == Known(e) /\ life[e] = "live"
AllLive(s) == \A i \in DOMAIN s : Live(s[i])
Fresh(s) == NoDup(s) /\ \A i \in DOMAIN s : ~Known(s[i])
BornFn(S) == [e \in S |-> "live"] @@ life

GAInit ==
    /\ life = <<>> /\ pool = <<>> /\ loose = {} /\ owed = <<>>
    /\ op = NoOp /\ heap = <<>>
    /\ cfg = [mode |-> "strict", ety |-> "tk", rec |-> FALSE, cl |-> <<>>]

(* f is a function  id -> scope  of elements the library becomes obliged to
   drop.  For element types without a destructor nothing is observable, so
   they are simply gone.                                                    *)
LifeAfterOwe(f) == IF Tracked THEN life
                   ELSE [e \in DOMAIN life |-> IF e \in DOMAIN f THEN "dropped" ELSE life[e]]
OwedAfterOwe(f) == IF Tracked THEN f @@ owed ELSE owed
Scoped(S, scope) == [e \in S |-> scope]
OpScope == <<"op">>
ReplacedScope == <<"replaced">>
ValScope(h) == <<"val", h>>
OwedIn(scope) == {e \in DOMAIN owed : owed[e] = scope}

(* ------------------------------------------------------------------------ *)
(* Destructor runs                                                          *)
(* ------------------------------------------------------------------------ *)
\* a destructor run is explainable only for an element the library (or the
\* caller, after release_elem) owes, and only once
\* elements of by-value operands that no callback has received yet
Unvisited ==
    UNION {LET s == op.srcs[i] IN
             IF op.name = "iter_rfold" THEN SeqRange(TakeN(s, op.n - op.k - 1))
             ELSE SeqRange(DropN(s, op.k + 1))
           : i \in {j \in DOMAIN op.srcs : op.byval[j]}}

DropEv(e, panics) ==
    /\ \/ (e \in DOMAIN owed /\ Live(e))
       \/ (Known(e) /\ life[e] = "abandoned")          \* leaked earlier, dropped late: still once
    /\ life' = [life EXCEPT ![e] = "dropped"]
    /\ cfg' = IF panics THEN [cfg EXCEPT !.mode = "lenient"] ELSE cfg
    /\ IF panics /\ ~Idle /\ op.name \in CbOps /\ op.phase = "incb"
       THEN \* the destructor of a value the callback was dropping panicked: the callback panics
            /\ owed' = Scoped(Unvisited \cup SeqRange(op.out), OpScope) @@ Restrict(owed, DOMAIN owed \ {e})
            /\ op' = [op EXCEPT !.phase = "unwinding"]
       ELSE /\ owed' = Restrict(owed, DOMAIN owed \ {e})
            /\ op' = IF panics /\ ~Idle THEN [op EXCEPT !.phase = "unwinding"] ELSE op
    /\ UNCHANGED <<pool, loose, heap>>

(* ------------------------------------------------------------------------ *)
(* Values entering and leaving the caller's hands                           *)
(* ------------------------------------------------------------------------ *)
Mk(h, kind, items, inner, blk) ==
    /\ Idle /\ h \notin DOMAIN pool
    /\ Fresh(items)
    /\ life' = BornFn(SeqRange(items))
    /\ pool' = (h :> [kind |-> kind, items |-> items, inner |-> inner, blk |-> blk]) @@ pool
    /\ UNCHANGED <<loose, owed, op, heap, cfg>>

MkElem(e) ==
    /\ ~Known(e)
    /\ life' = BornFn({e})
    /\ loose' = loose \cup {e}
    /\ UNCHANGED <<pool, owed, op, heap, cfg>>

Release(h) ==
    /\ Idle /\ h \in DOMAIN pool
    /\ LET f == Scoped(SeqRange(pool[h].items), ValScope(h)) IN
       /\ owed' = OwedAfterOwe(f)
       /\ life' = LifeAfterOwe(f)
    /\ pool' = Restrict(pool, DOMAIN pool \ {h})
    /\ UNCHANGED <<loose, op, heap, cfg>>

\* the value is gone: everything it held has been dropped (strict), or the
\* leftovers of a teardown interrupted by a destructor panic are leaked
Released(h, panicked) ==
    /\ Idle /\ h \notin DOMAIN pool
    /\ IF panicked
       THEN /\ ~Strict
            /\ life' = [e \in DOMAIN life |-> IF e \in OwedIn(ValScope(h)) THEN "abandoned" ELSE life[e]]
            /\ owed' = Restrict(owed, DOMAIN owed \ OwedIn(ValScope(h)))
       ELSE /\ OwedIn(ValScope(h)) = {}
            /\ UNCHANGED <<life, owed>>
    /\ UNCHANGED <<pool, loose, op, heap, cfg>>

ReleaseElem(e) ==
    /\ e \in loose
    /\ loose' = loose \ {e}
    /\ LET f == Scoped({e}, <<"caller">>) IN
       /\ owed' = OwedAfterOwe(f)
       /\ life' = LifeAfterOwe(f)
    /\ UNCHANGED <<pool, op, heap, cfg>>

(* ------------------------------------------------------------------------ *)
(* Calls without callbacks: sequence operations, conversions, iterator      *)
(* ------------------------------------------------------------------------ *)
ByVal(c) == {i \in DOMAIN c.recv : c.byval[i]}
InFlightOf(srcs, byval, elems) ==
    UNION {SeqRange(srcs[i]) : i \in {j \in DOMAIN srcs : byval[j]}} \cup SeqRange(elems)
KeptBy(e) ==
    UNION {SeqRange(e.outs[i].items) : i \in DOMAIN e.outs} \cup SeqRange(e.vals) \cup SeqRange(e.recv)

SrcKindOK(name, kinds) ==
    CASE name \in IterOps \cup {"iter_fold", "iter_rfold", "iter_clone", "collect_iter", "collect_iter_take"} \cup SearchOps -> kinds[1] = "iter"
      [] name \in {"append", "prepend", "pop_back", "pop_front", "split", "remove", "swap_remove",
                   "unflatten", "into_array", "into_native", "into_tuple", "into_iter", "box_new",
                   "vec_from_arr", "bslice_from_arr"} -> kinds[1] = "arr"
      [] name = "concat" -> kinds[1] = "arr" /\ kinds[2] = "arr"
      [] name = "flatten" -> kinds[1] = "nested"
      [] name \in {"from_array", "from_native"} -> kinds[1] = "native"
      [] name = "from_tuple" -> kinds[1] = "tuple"
      [] name \in {"unbox", "into_boxed_slice", "into_vec", "box_into_iter", "box_clone"} -> kinds[1] = "box"
      [] name \in {"try_from_boxed_slice", "arr_try_from_bslice", "bslice_into_vec"} -> kinds[1] = "bslice"
      [] name \in {"try_from_vec", "arr_try_from_vec", "vec_into_bslice"} -> kinds[1] = "vec"
      [] name \in {"map", "fold", "clone"} -> kinds[1] \in {"arr", "box"}
      [] name = "zip" -> kinds[1] \in {"arr", "box"} /\ kinds[2] \in {"arr", "box"}
      [] name = "clone_from" -> kinds[1] \in {"arr", "box"} /\ kinds[2] = kinds[1]
      [] name = "iter_clone_from" -> kinds[1] = "iter" /\ kinds[2] = "iter"
      [] OTHER -> TRUE

NewOp(c, srcs, kinds) ==
    [name |-> c.op, recv |-> c.recv, byval |-> c.byval, arg |-> c.arg, elems |-> c.elems,
     srcs |-> srcs, kinds |-> kinds, n |-> c.n, okind |-> c.okind,
     k |-> 0, out |-> <<>>, acc |-> 0, phase |-> "idle", cmap |-> <<>>,
     polls |-> 0, got |-> <<>>, gdropped |-> {}, sawNone |-> FALSE, hints |-> <<>>, truthful |-> c.truthful,
     fl |-> {}, allocs |-> 0, cur |-> <<>>, spare |-> c.spare, stopped |-> FALSE,
     blks |-> [i \in DOMAIN c.recv |-> pool[c.recv[i]].blk]]

IsCbOp(name) == name \in CbOps
IsCollectOp(name) == name \in {"try_from_iter", "from_iter", "try_boxed_from_iter", "boxed_from_iter", "builder_extend"}
IsSerdeOp(name) == name \in {"deserialize", "deserialize_in_place"}

\* c = [op, recv, byval, arg, elems, n, okind, truthful]
Call(c) ==
    /\ Idle
    /\ NoDup(c.recv) /\ \A i \in DOMAIN c.recv : c.recv[i] \in DOMAIN pool
    /\ NoDup(c.elems) /\ \A i \in DOMAIN c.elems : c.elems[i] \in loose
    /\ LET srcs == [i \in DOMAIN c.recv |-> pool[c.recv[i]].items]
           kinds == [i \in DOMAIN c.recv |-> pool[c.recv[i]].kind]
           moved == {c.recv[i] : i \in ByVal(c)}
           infl == InFlightOf(srcs, c.byval, c.elems)
       IN
       /\ SrcKindOK(c.op, kinds)
       /\ Defined(c.op, [i \in DOMAIN srcs |-> Len(srcs[i])], c.arg)
       /\ loose' = loose \ SeqRange(c.elems)
       /\ IF c.op = "deserialize_in_place"
          THEN \* like clone_from: the place is mutably borrowed for the call; what it held is the library's to drop
               /\ Len(c.recv) = 1 /\ ~c.byval[1] /\ kinds[1] = "arr" /\ c.n = Len(srcs[1])
               /\ op' = NewOp(c, srcs, kinds)
               /\ pool' = [pool EXCEPT ![c.recv[1]].items = <<>>]
               /\ LET f == Scoped(SeqRange(srcs[1]), ReplacedScope) IN
                  /\ owed' = OwedAfterOwe(f)
                  /\ life' = LifeAfterOwe(f)
          ELSE IF c.op \in CloneFromOps
          THEN \* the destination is mutably borrowed for the whole call: nobody can look at it; what it held is
               \* to be dropped by the library (scope "replaced") at any point of the call
               /\ Len(c.recv) = 2 /\ ~c.byval[1] /\ ~c.byval[2] /\ c.n = Len(srcs[2])
               /\ op' = NewOp(c, srcs, kinds)
               /\ pool' = [pool EXCEPT ![c.recv[1]].items = <<>>]
               /\ LET f == Scoped(SeqRange(srcs[1]), ReplacedScope) IN
                  /\ owed' = OwedAfterOwe(f)
                  /\ life' = LifeAfterOwe(f)
          ELSE IF IsCollectOp(c.op)
          THEN \* the source iterator is handed over by value: whatever it owns besides the items it yields (c.elems:
               \* a value with a destructor inside the scripted source) is the library's to drop before it returns
               /\ op' = NewOp(c, srcs, kinds)
               /\ pool' = Restrict(pool, DOMAIN pool \ moved)
               /\ LET f == Scoped(SeqRange(c.elems), OpScope) IN
                  /\ owed' = OwedAfterOwe(f)
                  /\ life' = LifeAfterOwe(f)
          ELSE IF IsCbOp(c.op) \/ IsSerdeOp(c.op)
          THEN /\ op' = NewOp(c, srcs, kinds)
               /\ pool' = Restrict(pool, DOMAIN pool \ moved)
               /\ UNCHANGED <<life, owed>>
          ELSE LET e == Sem(c.op, srcs, c.arg, c.elems)
                   h1 == c.recv[1]
                   gone == IF e.ok THEN infl \ KeptBy(e) ELSE infl
                   f == Scoped(gone, OpScope) @@ Scoped(e.later, ValScope(h1))
               IN
               /\ owed' = OwedAfterOwe(f)
               /\ life' = LifeAfterOwe(f)
               /\ op' = [NewOp(c, srcs, kinds) EXCEPT !.phase = IF e.ok THEN "idle" ELSE "unwinding",
                                                      !.fl = IF e.ok THEN KeptBy(e) \ SeqRange(e.recv) ELSE {}]
               \* a by-reference receiver (iterator) already has its post-call contents
               /\ pool' = IF c.recv # <<>> /\ ~c.byval[1] /\ e.ok
                          THEN [Restrict(pool, DOMAIN pool \ moved) EXCEPT ![h1].items = e.recv]
                          ELSE Restrict(pool, DOMAIN pool \ moved)
    /\ UNCHANGED <<heap, cfg>>

ItemsEq(a, b) == a = b

OutsMatch(obs, exp) ==
    /\ Len(obs) = Len(exp)
    /\ \A i \in DOMAIN exp :
         /\ obs[i].kind = exp[i].kind
         /\ ItemsEq(obs[i].items, exp[i].items)
         /\ obs[i].inner = exp[i].inner
         /\ obs[i].h \notin DOMAIN pool
    /\ \A i, j \in DOMAIN obs : i # j => obs[i].h # obs[j].h

PoolWith(p, outs) ==
    [h \in DOMAIN p \cup {outs[i].h : i \in DOMAIN outs} |->
        IF h \in DOMAIN p THEN p[h]
        ELSE LET i == CHOOSE j \in DOMAIN outs : outs[j].h = h
             IN [kind |-> outs[i].kind, items |-> outs[i].items, inner |-> outs[i].inner, blk |-> outs[i].blk]]

OpOwedEmpty == OwedIn(OpScope) = {}

\* what an iterator reports about itself must agree with its queue (C06)
IterObsOK(o) ==
    /\ o.h \in DOMAIN pool
    /\ ItemsEq(o.items, pool[o.h].items)
    /\ (pool[o.h].kind = "iter" =>
          /\ o.len = Len(pool[o.h].items)
          /\ o.lo = o.len /\ o.hi = o.len)

\* r = [outs, vals, obs, res, err, dbg, dbgref]
RetPlain(r) ==
    /\ ~Idle /\ ~IsCbOp(op.name) /\ ~IsCollectOp(op.name) /\ ~IsSerdeOp(op.name)
    /\ op.phase = "idle"
    /\ OpOwedEmpty
    /\ LET e == Sem(op.name, op.srcs, op.arg, op.elems) IN
       /\ e.ok
       /\ r.err = e.err
       /\ OutsMatch(r.outs, e.outs)
       /\ ItemsEq(r.vals, e.vals)
       /\ r.res = e.res
       /\ AllLive(r.vals)
       /\ \A i \in DOMAIN r.outs : AllLive(r.outs[i].items)
       /\ loose' = loose \cup SeqRange(e.vals)
       /\ pool' = PoolWith(pool, r.outs)
       /\ \A i \in DOMAIN r.obs : LET o == r.obs[i] IN
            /\ o.h \in DOMAIN pool
            /\ ItemsEq(o.items, pool[o.h].items)
            /\ (pool[o.h].kind = "iter" => o.len = Len(pool[o.h].items) /\ o.lo = o.len /\ o.hi = o.len)
       /\ (op.name = "debug" => r.dbg = r.dbgref)
       \* O(1) conversions hand over the same heap block and never call the allocator (C15): exactly the ones the
       \* property names (by-value iteration of a Box is not among them)
       /\ (cfg.rec /\ ~e.err /\ (op.name \in {"into_boxed_slice", "into_vec", "try_from_boxed_slice"}
                                   \/ (op.name = "try_from_vec" /\ ~op.spare)) =>
             /\ op.allocs = 0
             /\ r.outs[1].blk = op.blks[1])
    /\ op' = NoOp
    /\ UNCHANGED <<life, owed, heap, cfg>>

(* ------------------------------------------------------------------------ *)
(* Callback operations (C08 ordering, C04 panic accounting)                 *)
(* ------------------------------------------------------------------------ *)
\* b = [k, idx, args, acc]
Cb(b) ==
    /\ ~Idle /\ IsCbOp(op.name) /\ op.phase = "idle"
    /\ b.k = op.k /\ op.k < op.n /\ ~op.stopped
    /\ (op.name = "generate" => b.idx = op.k)
    \* zipping with an array of another (plain) element type: its element k arrives with ours
    /\ (op.name = "zipx" => b.pv = op.k)
    /\ IF op.name = "iter_clone"
       THEN Len(b.args) = 1 /\ b.args[1] \in SeqRange(op.srcs[1]) \ DOMAIN op.cmap
       ELSE ItemsEq(b.args, CbArgs(op.name, op.srcs, op.n, op.k))
    /\ AllLive(b.args)
    /\ (op.name \in Folds => b.acc = op.acc)
    /\ loose' = loose \cup {b.args[i] : i \in {j \in DOMAIN b.args : op.byval[j] \/ op.name \in SearchByVal}}
    /\ op' = [op EXCEPT !.phase = "incb", !.cur = b.args]
    \* a searching consumer takes the element out of the iterator before the predicate sees it
    /\ pool' = IF op.name \in SearchOps
               THEN [pool EXCEPT ![op.recv[1]].items =
                        IF op.name \in BackSearch THEN TakeN(op.srcs[1], op.n - op.k - 1) ELSE DropN(op.srcs[1], op.k + 1)]
               ELSE pool
    /\ UNCHANGED <<life, owed, heap, cfg>>

\* b = [k, ret, acc, panic]
CbRet(b) ==
    /\ ~Idle /\ IsCbOp(op.name) /\ op.phase = "incb"
    /\ b.k = op.k
    /\ IF b.panic
       THEN \* (find / rfind: the predicate only borrowed the element; the library holds it and drops it while unwinding)
            LET f == Scoped(Unvisited \cup SeqRange(op.out) \cup (IF op.name \in SearchByRef THEN SeqRange(op.cur) ELSE {}), OpScope) IN
            /\ owed' = OwedAfterOwe(f)
            /\ life' = LifeAfterOwe(f)
            /\ op' = [op EXCEPT !.phase = "unwinding"]
            /\ UNCHANGED loose
       ELSE IF op.name \in SearchOps
       THEN \* b.acc = 1: the predicate's answer ends the search
            /\ b.ret = <<>> /\ b.acc \in {0, 1}
            /\ LET stop == b.acc = 1
                   f == IF op.name \in SearchByRef /\ ~stop THEN Scoped(SeqRange(op.cur), OpScope) ELSE <<>>
               IN /\ owed' = OwedAfterOwe(f)
                  /\ life' = LifeAfterOwe(f)
                  /\ op' = [op EXCEPT !.phase = "idle", !.k = @ + 1, !.stopped = stop,
                                      !.out = IF op.name \in SearchByRef /\ stop THEN op.cur ELSE @]
            /\ UNCHANGED loose
       ELSE IF op.name \in Folds
       THEN /\ b.ret = <<>>
            /\ op' = [op EXCEPT !.phase = "idle", !.k = @ + 1, !.acc = b.acc]
            /\ UNCHANGED <<life, owed, loose>>
       ELSE /\ Len(b.ret) = 1
            /\ \/ (~Known(b.ret[1]) /\ life' = BornFn({b.ret[1]}) /\ UNCHANGED loose)
               \/ (b.ret[1] \in loose /\ loose' = loose \ {b.ret[1]} /\ UNCHANGED life)
            /\ op' = [op EXCEPT !.phase = "idle", !.k = @ + 1, !.out = Append(@, b.ret[1]),
                                !.cmap = IF op.name = "iter_clone" THEN (op.cur[1] :> b.ret[1]) @@ @ ELSE @]
            /\ UNCHANGED owed
    /\ UNCHANGED <<pool, heap, cfg>>

\* The `internals' builders / consumer used directly and then abandoned (dropped before completion):
\* exactly like a callback operation whose next callback never comes - everything not yet handed
\* out and everything already built must be dropped before the abandonment is over.
Abandon ==
    /\ ~Idle /\ IsCbOp(op.name) /\ op.phase = "idle"
    /\ LET rest == UNION {SeqRange(DropN(op.srcs[i], op.k)) : i \in {j \in DOMAIN op.srcs : op.byval[j]}}
           f == Scoped(rest \cup SeqRange(op.out), OpScope)
       IN /\ owed' = OwedAfterOwe(f)
          /\ life' = LifeAfterOwe(f)
    /\ op' = [op EXCEPT !.phase = "unwinding"]
    /\ UNCHANGED <<pool, loose, heap, cfg>>

\* Clone::clone / Default::default of an element are the callbacks of
\* Clone / Default / iterator clone (call and return in one step)
CloneSrcSeq == IF op.name \in CloneFromOps THEN op.srcs[2] ELSE op.srcs[1]
CloneGuard(src) ==
    /\ ~Idle /\ op.name \in {"clone", "iter_clone"} \cup CloneFromOps /\ op.phase = "idle" /\ op.k < op.n
    /\ IF op.name \in {"iter_clone", "iter_clone_from"}
       THEN src \in SeqRange(CloneSrcSeq) \ DOMAIN op.cmap      \* any order, each element once
       ELSE src = CloneSrcSeq[op.k + 1]                         \* element k, ascending (C08)
    /\ Live(src)
\* cfg.cl[e]: how often element e has been the `&self' of Clone::clone.  The element itself counts too (nth, logged by
\* its Clone impl; -1: this element kind does not count): Clone::clone must be called on the element the operand holds,
\* not on a bitwise copy of it - the difference shows with interior mutability and with the second clone of the same value.
ClCount(e) == IF e \in DOMAIN cfg.cl THEN cfg.cl[e] ELSE 0
CloneStep(src, new, nth) ==
    /\ CloneGuard(src)
    /\ ~Known(new)
    /\ nth = -1 \/ nth = ClCount(src)
    /\ life' = BornFn({new})
    /\ op' = [op EXCEPT !.k = @ + 1, !.out = Append(@, new), !.cmap = (src :> new) @@ @]
    /\ cfg' = [cfg EXCEPT !.cl = (src :> ClCount(src) + 1) @@ @]
    /\ UNCHANGED <<pool, loose, owed, heap>>
ClonePanicStep(src) ==
    /\ CloneGuard(src)
    \* (clone_from: the clones made so far may already sit in the destination - element-wise replacement - or be
    \*  dropped: they join what the destination held; UnwoundCloneFrom settles the account)
    /\ LET f == Scoped(SeqRange(op.out), IF op.name \in CloneFromOps THEN ReplacedScope ELSE OpScope) IN
       /\ owed' = OwedAfterOwe(f)
       /\ life' = LifeAfterOwe(f)
    /\ op' = [op EXCEPT !.phase = "unwinding"]
    /\ UNCHANGED <<pool, loose, heap, cfg>>
DefaultStep(new) ==
    /\ ~Idle /\ op.name = "default" /\ op.phase = "idle" /\ op.k < op.n
    /\ ~Known(new)
    /\ life' = BornFn({new})
    /\ op' = [op EXCEPT !.k = @ + 1, !.out = Append(@, new)]
    /\ UNCHANGED <<pool, loose, owed, heap, cfg>>

\* clone_from returned: the destination holds exactly the clones, in the source's order; everything it held before
\* has been dropped (once: DropEv); the source is untouched
CloneFromItems == [i \in DOMAIN op.srcs[2] |-> op.cmap[op.srcs[2][i]]]
RetCloneFrom(r) ==
    /\ ~Idle /\ op.name \in CloneFromOps /\ op.phase = "idle"
    /\ op.k = op.n
    /\ OpOwedEmpty /\ OwedIn(ReplacedScope) = {}
    /\ r.err = FALSE /\ r.vals = <<>> /\ r.outs = <<>>
    /\ AllLive(CloneFromItems)
    /\ pool' = [pool EXCEPT ![op.recv[1]].items = CloneFromItems]
    /\ Len(r.obs) = 2
    /\ \A i \in DOMAIN r.obs : LET o == r.obs[i] IN
         /\ o.h = op.recv[i]
         /\ ItemsEq(o.items, pool'[o.h].items)
         /\ (pool[o.h].kind = "iter" => o.len = Len(o.items) /\ o.lo = o.len /\ o.hi = o.len)
    /\ op' = NoOp
    /\ UNCHANGED <<life, loose, owed, heap, cfg>>
\* a Clone::clone panicked inside clone_from: the destination is a valid value made of elements it held before and
\* of clones made by this call, each at most once; every other such element has been dropped; nothing else moved
UnwoundCloneFrom(u) ==
    /\ ~Idle /\ op.name \in CloneFromOps /\ op.phase = "unwinding" /\ Strict
    /\ OpOwedEmpty
    /\ Len(u.obs) = 2 /\ u.obs[1].h = op.recv[1] /\ u.obs[2].h = op.recv[2]
    /\ LET w == u.obs[1].items IN
       /\ NoDup(w) /\ SeqRange(w) = OwedIn(ReplacedScope)
       /\ Len(w) = Len(op.srcs[1]) \/ pool[op.recv[1]].kind = "iter"
       /\ (pool[op.recv[1]].kind = "iter" => u.obs[1].len = Len(w))
       /\ pool' = [pool EXCEPT ![op.recv[1]].items = w]
       /\ owed' = Restrict(owed, DOMAIN owed \ SeqRange(w))
    /\ ItemsEq(u.obs[2].items, pool[op.recv[2]].items)
    /\ op' = NoOp
    /\ UNCHANGED <<life, loose, heap, cfg>>

\* a searching consumer returned: it stopped at the ending answer or ran out of elements; the iterator holds exactly
\* the elements not visited (Cb kept the pool up to date); find / rfind hand the found element to the caller
RetSearch(r) ==
    /\ ~Idle /\ op.name \in SearchOps /\ op.phase = "idle"
    /\ op.stopped \/ op.k = op.n
    /\ OpOwedEmpty
    /\ r.err = FALSE /\ r.outs = <<>>
    /\ r.vals = (IF op.name \in SearchByRef THEN op.out ELSE <<>>)
    /\ AllLive(r.vals)
    /\ r.res = (CASE op.name = "iter_position" -> (IF op.stopped THEN op.k - 1 ELSE -1)
                  [] op.name = "iter_rposition" -> (IF op.stopped THEN op.n - op.k ELSE -1)
                  [] op.name \in {"iter_any", "iter_find_map"} -> (IF op.stopped THEN 1 ELSE 0)
                  [] op.name = "iter_all" -> (IF op.stopped THEN 0 ELSE 1)
                  [] OTHER -> -1)
    /\ loose' = loose \cup SeqRange(r.vals)
    /\ \A i \in DOMAIN r.obs : IterObsOK(r.obs[i])
    /\ op' = NoOp
    /\ UNCHANGED <<life, pool, owed, heap, cfg>>

\* the predicate of find / rfind panicked: the element it was looking at is either dropped while unwinding (Unwound)
\* or still in the iterator, where it was - an implementation may hand out a reference into the array and advance
\* only afterwards; either way it exists exactly once
UnwoundSearchKeep(u) ==
    /\ ~Idle /\ op.name \in SearchByRef /\ op.phase = "unwinding" /\ Strict
    /\ OwedIn(OpScope) = SeqRange(op.cur) /\ AllLive(op.cur)
    /\ Len(u.obs) = 1 /\ u.obs[1].h = op.recv[1]
    /\ LET h == op.recv[1]
           w == IF op.name \in BackSearch THEN pool[h].items \o op.cur ELSE op.cur \o pool[h].items
       IN /\ ItemsEq(u.obs[1].items, w)
          /\ u.obs[1].len = Len(w) /\ u.obs[1].lo = Len(w) /\ u.obs[1].hi = Len(w)
          /\ pool' = [pool EXCEPT ![h].items = w]
    /\ owed' = Restrict(owed, DOMAIN owed \ SeqRange(op.cur))
    /\ op' = NoOp
    /\ UNCHANGED <<life, loose, heap, cfg>>

\* Default::default of the element type panicked while an array was being defaulted: what has been built is the
\* operation's to drop, like after a panicking generator
DefaultPanicStep ==
    /\ ~Idle /\ op.name = "default" /\ op.phase = "idle" /\ op.k < op.n
    /\ LET f == Scoped(SeqRange(op.out), OpScope) IN
       /\ owed' = OwedAfterOwe(f)
       /\ life' = LifeAfterOwe(f)
    /\ op' = [op EXCEPT !.phase = "unwinding"]
    /\ UNCHANGED <<pool, loose, heap, cfg>>

RetCb(r) ==
    /\ ~Idle /\ IsCbOp(op.name) /\ op.name \notin CloneFromOps \cup SearchOps /\ op.phase = "idle"
    /\ op.k = op.n
    /\ OpOwedEmpty
    /\ r.err = FALSE /\ r.vals = <<>>
    /\ IF op.name \in Folds
       THEN /\ r.outs = <<>> /\ r.res = op.acc
            /\ UNCHANGED pool
       ELSE LET items == IF op.name = "iter_clone"
                         THEN [i \in DOMAIN op.srcs[1] |-> op.cmap[op.srcs[1][i]]]
                         ELSE op.out
                okind == CASE op.name = "iter_clone" -> "iter"
                           [] op.name \in {"clone", "map", "zip", "zipx"} -> op.kinds[1]
                           [] OTHER -> op.okind
            IN
            /\ OutsMatch(r.outs, <<MkVal(okind, items, 0)>>)
            /\ AllLive(items)
            /\ pool' = PoolWith(pool, r.outs)
    /\ \A i \in DOMAIN r.obs : IterObsOK(r.obs[i])
    /\ op' = NoOp
    /\ UNCHANGED <<life, loose, owed, heap, cfg>>

(* ------------------------------------------------------------------------ *)
(* Unwinding out of a call                                                  *)
(* ------------------------------------------------------------------------ *)
IsSubWindow(w, s) == \E a \in 0..Len(s) : \E b \in a..Len(s) : w = SubSeq(s, a + 1, b)

\* u = [obs, msg]
Unwound(u) ==
    /\ ~Idle /\ op.phase = "unwinding" /\ op.name \notin CloneFromOps
    /\ IF Strict
       THEN /\ OpOwedEmpty
            \* receivers passed by reference are untouched by a failed call
            /\ \A i \in DOMAIN u.obs : IterObsOK(u.obs[i])
            /\ UNCHANGED <<life, owed, pool>>
       ELSE \* after a destructor panic: leaks allowed, double drops and stale reads never (C05)
            LET h1 == IF op.recv # <<>> THEN op.recv[1] ELSE 0
                \* what the interrupted call still owed (also the skipped elements of nth / nth_back) may leak
                leftover == OwedIn(OpScope) \cup OwedIn(ValScope(h1)) \cup {e \in op.fl : Live(e)}
                byref == op.recv # <<>> /\ ~op.byval[1] /\ h1 \in DOMAIN pool
                win == IF byref /\ u.obs # <<>> THEN u.obs[1].items ELSE <<>>
                before == IF byref THEN op.srcs[1] ELSE <<>>
                lost == {e \in SeqRange(before) : Live(e)} \ SeqRange(win)
            IN
            /\ (byref => /\ Len(u.obs) = 1 /\ u.obs[1].h = h1
                         /\ IsSubWindow(win, before) /\ AllLive(win)
                         /\ (pool[h1].kind = "iter" => u.obs[1].len = Len(win)))
            /\ life' = [e \in DOMAIN life |->
                          IF e \in (leftover \cup lost) \ SeqRange(win) THEN "abandoned" ELSE life[e]]
            /\ owed' = Restrict(owed, DOMAIN owed \ (OwedIn(OpScope) \cup OwedIn(ValScope(h1)) \cup SeqRange(win)))
            /\ pool' = IF byref THEN [pool EXCEPT ![h1].items = win] ELSE pool
    /\ op' = NoOp
    /\ UNCHANGED <<loose, heap, cfg>>

(* ------------------------------------------------------------------------ *)
(* Invariants                                                               *)
(* ------------------------------------------------------------------------ *)
Window(h) == SeqRange(pool[h].items)
NoAlias ==
    /\ \A h1, h2 \in DOMAIN pool : h1 # h2 => Window(h1) \cap Window(h2) = {}
    /\ \A h \in DOMAIN pool : NoDup(pool[h].items) /\ Window(h) \cap loose = {}
    /\ \A h \in DOMAIN pool : Window(h) \cap DOMAIN owed = {}
    /\ loose \cap DOMAIN owed = {}
NoDangling ==
    /\ \A h \in DOMAIN pool : \A e \in Window(h) : Live(e)
    /\ \A e \in loose : Live(e)
    /\ \A e \in DOMAIN owed : Live(e)
Quiescent ==
    /\ pool = <<>> /\ loose = {} /\ owed = <<>> /\ Idle
    /\ \A e \in DOMAIN life : life[e] = "dropped" \/ (~Strict /\ life[e] = "abandoned")
=============================================================================
