------------------------------- MODULE Layout -------------------------------
(***************************************************************************)
(* Memory layout of GenericArray<T, N> (C01) and the structural slot       *)
(* traversal used by const-default (C19).                                  *)
(*                                                                         *)
(* The storage type is built by recursion on the binary digits of N        *)
(* (typenum: UInt<U, B0> = 2U, UInt<U, B1> = 2U + 1):                      *)
(*     UTerm       |-> the base type           (declared: [T; 0])          *)
(*     UInt<U,B0>  |-> GenericArrayImplEven    (fields parent1, parent2 of *)
(*                     the storage of U, and a PhantomData<T>)             *)
(*     UInt<U,B1>  |-> GenericArrayImplOdd     (parent1, parent2, data: T) *)
(* and GenericArray itself is a transparent wrapper.  The field lists, the *)
(* repr attributes and the base type are NOT assumed here: LayoutSrc.tla   *)
(* is generated from src/lib.rs by the runner before every check.          *)
(*                                                                         *)
(* ReprC is the documented repr(C) algorithm: fields in declaration order, *)
(* each at the next multiple of its alignment; size rounded up to the      *)
(* struct alignment = max field alignment.                                 *)
(***************************************************************************)
EXTENDS Integers, Sequences, FiniteSets, LayoutSrc

AlignUp(x, a) == ((x + a - 1) \div a) * a
MaxOf(a, b) == IF a > b THEN a ELSE b

\* a layout: [size, align, slots]  (slots: the byte offsets of the T values it contains)
Ty(size, align, slots) == [size |-> size, align |-> align, slots |-> slots]
Shift(S, d) == {x + d : x \in S}

\* element type of size s, alignment a
ElemTy(s, a) == Ty(s, a, {0})
Phantom == Ty(0, 1, {})
Unit == Ty(0, 1, {})
\* the base of the recursion as declared in the source
BaseTy(s, a) == IF BaseIsZeroLenArray THEN Ty(0, a, {}) ELSE Unit

MinOf(a, b) == IF a < b THEN a ELSE b
RECURSIVE ReprCFrom(_, _, _, _, _, _)
\* fields: sequence of layouts; pack: 0, or the k of repr(packed(k)) - every field's alignment is capped at k;
\* returns the struct layout
ReprCFrom(fields, i, end, align, slots, pack) ==
    IF i > Len(fields) THEN Ty(AlignUp(end, align), align, slots)
    ELSE LET f == fields[i]
             fa == IF pack > 0 THEN MinOf(f.align, pack) ELSE f.align
             off == AlignUp(end, fa)
         IN ReprCFrom(fields, i + 1, off + f.size, MaxOf(align, fa), slots \cup Shift(f.slots, off), pack)
\* minalign: 0, or the k of repr(align(k)) - the struct is at least that aligned
ReprCMod(fields, pack, minalign) == ReprCFrom(fields, 1, 0, MaxOf(1, minalign), {}, pack)
ReprC(fields) == ReprCMod(fields, 0, 0)

FieldTy(name, u, s, a) == CASE name = "U" -> u [] name = "T" -> ElemTy(s, a) [] name = "PhantomData" -> Phantom
Node(fieldNames, u, s, a, pack, minalign) == ReprCMod([i \in DOMAIN fieldNames |-> FieldTy(fieldNames[i], u, s, a)], pack, minalign)
Even(u, s, a) == Node(EvenFields, u, s, a, EvenPack, EvenAlign)
Odd(u, s, a) == Node(OddFields, u, s, a, OddPack, OddAlign)

\* what [T; N] is by definition of the language
Native(n, s, a) == Ty(n * s, a, {i * s : i \in 0..(n - 1)})

(* ---- prediction for a length given by its binary digits, most significant first ---- *)
RECURSIVE Storage(_, _, _)
Storage(bits, s, a) ==
    IF bits = <<>> THEN BaseTy(s, a)
    ELSE LET u == Storage(SubSeq(bits, 1, Len(bits) - 1), s, a)
         IN IF bits[Len(bits)] = 0 THEN Even(u, s, a) ELSE Odd(u, s, a)

(* ---- arithmetic on little-endian base-1000 limbs, for lengths beyond TLC's integers ---- *)
RECURSIVE MulSmallFrom(_, _, _, _)
MulSmallFrom(limbs, k, i, carry) ==
    IF i > Len(limbs) THEN (IF carry = 0 THEN <<>> ELSE <<carry % 1000>> \o MulSmallFrom(limbs, k, i, carry \div 1000))
    ELSE LET v == limbs[i] * k + carry IN <<v % 1000>> \o MulSmallFrom(limbs, k, i + 1, v \div 1000)
RECURSIVE Trim(_)
Trim(l) == IF l # <<>> /\ l[Len(l)] = 0 THEN Trim(SubSeq(l, 1, Len(l) - 1)) ELSE l
MulSmall(limbs, k) == Trim(MulSmallFrom(limbs, k, 1, 0))

\* a record logged from the real compiler: sizes as limbs
LayoutRecOK(r) ==
    /\ Trim(r.size) = MulSmall(r.n, r.tsize)          \* N * size_of::<T>() bytes
    /\ r.align = r.talign                             \* aligned as T
    /\ Trim(r.nsize) = Trim(r.size) /\ r.nalign = r.align   \* exactly the native array [T; N]
    /\ Trim(r.len) = Trim(r.n)                              \* GenericArray::<T, N>::len() = N
\* element i of a live array sits at byte offset i * size_of::<T>()
ElemOffOK(r) == r.off = r.i * r.tsize /\ r.i < r.n

(* ---- const-default / zeroize (C19): values are logged run-length encoded ---- *)
RleOK(rle, val, n) == IF n = 0 THEN rle = <<>> ELSE rle = <<<<val, n>>>>
CDefOK(r) == RleOK(r.rle, r.defval, r.n) /\ r.eq_default /\ r.const_eq_runtime
ZeroizeOK(r) == RleOK(r.rle, r.zeroval, r.n)
\* elements without bytes are owed the call all the same: once each (as the slice does), also through rows of 3
ZCallsOK(r) == r.calls = r.n /\ r.slice_calls = r.n /\ r.nested_calls = 3 * r.n
=============================================================================
