----------------------------- MODULE LayoutSrc -----------------------------
\* Placeholder: regenerated from /repo/src/lib.rs by the runner (lib/srcparse.py) before every check.
EvenFields == <<"U", "U", "PhantomData">>
OddFields == <<"U", "U", "T">>
EvenReprC == TRUE
OddReprC == TRUE
BaseIsZeroLenArray == TRUE
WrapperTransparent == TRUE
EvenPack == 0
OddPack == 0
EvenAlign == 0
OddAlign == 0
=============================================================================
