----------------------------- MODULE LayoutSrc -----------------------------
\* Placeholder: regenerated from /repo/src/lib.rs by the runner (lib/srcparse.py) before every check.
EvenFields == <<"U", "U", "PhantomData">>
OddFields == <<"U", "U", "T">>
EvenReprC == TRUE
OddReprC == TRUE
BaseIsZeroLenArray == TRUE
WrapperTransparent == TRUE
=============================================================================
