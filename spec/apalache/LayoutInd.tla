----------------------------- MODULE LayoutInd -----------------------------
(***************************************************************************)
(* Unbounded-depth part of C01: the layout invariant is INDUCTIVE over the *)
(* digit recursion, for a fixed element layout (size S, alignment A with   *)
(* S a multiple of A, or S = 0).  Checked with Apalache:                   *)
(*   apalache-mc check --init=IndInit --inv=IndInv --length=1 LayoutInd.tla*)
(* (IndInit = any state satisfying IndInv; one Push step must preserve it) *)
(* and  --length=0 --init=Init  for the base case.  The runner loops over  *)
(* the element-layout lattice by rewriting the two constants below.        *)
(* The node layouts are the repr(C) algorithm specialised to the declared  *)
(* field lists <<U, U, PhantomData>> and <<U, U, T>> (see Layout.tla for   *)
(* the general algorithm, which TLC checks to depth 11).                   *)
(***************************************************************************)
EXTENDS Integers

\* @type: Int;
S == 24
\* @type: Int;
A == 8

VARIABLES
    \* @type: Int;
    n,
    \* @type: Int;
    size,
    \* @type: Int;
    align,
    \* @type: Int;
    off2,       \* offset of parent2 in the current node
    \* @type: Int;
    offd        \* offset of data in the current node (odd nodes), -1 otherwise

\* @type: (Int, Int) => Int;
AlignUp(x, a) == ((x + a - 1) \div a) * a
\* @type: (Int, Int) => Int;
Mx(a, b) == IF a > b THEN a ELSE b

Init == n = 0 /\ size = 0 /\ align = A /\ off2 = 0 /\ offd = -1

\* even node: fields U, U, PhantomData (size 0, align 1)
PushEven ==
    LET o2 == AlignUp(size, align)
        e2 == o2 + size
        al == Mx(align, 1)
    IN /\ n' = 2 * n
       /\ off2' = o2
       /\ offd' = -1
       /\ align' = al
       /\ size' = AlignUp(AlignUp(e2, 1) + 0, al)
\* odd node: fields U, U, T
PushOdd ==
    LET o2 == AlignUp(size, align)
        e2 == o2 + size
        od == AlignUp(e2, A)
        al == Mx(align, A)
    IN /\ n' = 2 * n + 1
       /\ off2' = o2
       /\ offd' = od
       /\ align' = al
       /\ size' = AlignUp(od + S, al)

Next == PushEven \/ PushOdd

\* the inductive invariant: the storage of N elements is N * S bytes, aligned as T
IndInv == n >= 0 /\ size = n * S /\ align = A
\* consequences checked on the successor state: parent2 starts after floor(N/2) elements and the odd
\* node's data slot is the last element
Consequences == (n >= 1 => off2 = (n \div 2) * S) /\ (offd >= 0 => offd = (n - 1) * S)
IndInit == n \in Nat /\ size = n * S /\ align = A /\ off2 = 0 /\ offd = -1
\* checked as the invariant of the one-step run: the successor satisfies IndInv and the offsets are linear
StepInv == IndInv /\ ((off2 # 0 \/ offd >= 0) => Consequences)
=============================================================================
