-------------------------------- MODULE Heap --------------------------------
(***************************************************************************)
(* Allocator ledger (C15, C16).  The harness's recording global allocator  *)
(* logs every request the library makes (alloc / realloc / dealloc with    *)
(* size and alignment, blocks named by small ids) interleaved with the     *)
(* operation events.                                                       *)
(*   - every request has a non-zero size                                   *)
(*   - a block is released exactly once, with the layout it was requested  *)
(*     with (realloc: the old layout; the new block takes the new size)    *)
(*   - nothing stays allocated once all values are gone (case_end)         *)
(*   - a heap-backed value (Box / Vec / Box<[T]> of >= 1 non-zero-sized    *)
(*     elements) points into a live block; after it is released that block *)
(*     is gone                                                             *)
(*   - if the allocator reports failure, the only thing that may follow is *)
(*     the process ending through the standard allocation-error path       *)
(* The O(1) conversions (no allocator call, same block) are checked in     *)
(* GA!RetPlain from op.allocs / op.blks.                                   *)
(***************************************************************************)
EXTENDS Views

VARIABLE hx   \* [relblk : handle -> block owed a release, failed, ended]

HxInit == hx = [relblk |-> <<>>, failed |-> FALSE, ended |-> TRUE]

Layout(r) == [size |-> r.size, align |-> r.align]
CountAlloc == IF Idle THEN op ELSE [op EXCEPT !.allocs = @ + 1]

AllocEv(r) ==
    /\ ~hx.failed
    /\ r.p \notin DOMAIN heap
    /\ r.size > 0                                   \* never a zero-size request
    /\ heap' = (r.p :> Layout(r)) @@ heap
    /\ op' = CountAlloc
    /\ UNCHANGED <<life, pool, loose, owed, cfg, hx>>

DeallocEv(r) ==
    /\ r.p \in DOMAIN heap                          \* live: not freed before, not foreign
    /\ heap[r.p] = Layout(r)                        \* released with the layout it was requested with
    \* a boxed constructor that unwinds (its generator panicked) frees its block only after the elements it had built in
    \* that block are dropped - they are all the operation owes, and they live nowhere else
    /\ (~Idle /\ op.name \in {"generate", "default"} /\ op.okind = "box" /\ op.phase = "unwinding") => OpOwedEmpty
    /\ heap' = Restrict(heap, DOMAIN heap \ {r.p})
    /\ UNCHANGED <<life, pool, loose, owed, op, cfg, hx>>

ReallocEv(r) ==
    /\ ~hx.failed
    /\ r.p \in DOMAIN heap /\ heap[r.p] = Layout(r)
    /\ r.new > 0
    /\ r.q \notin DOMAIN heap \ {r.p}
    /\ heap' = (r.q :> [size |-> r.new, align |-> r.align]) @@ Restrict(heap, DOMAIN heap \ {r.p})
    /\ op' = CountAlloc
    /\ UNCHANGED <<life, pool, loose, owed, cfg, hx>>

AllocFailEv(r) ==
    /\ ~hx.failed /\ r.size > 0
    /\ hx' = [hx EXCEPT !.failed = TRUE]
    /\ UNCHANGED gaVars

\* after a reported allocation failure the process must end through handle_alloc_error.
\* No other end of the process is a behaviour: a crash, an abort, a sanitizer report, or class "hang" - the
\* harness's watchdog saw an operation that did not return (no event for its time limit, or a callback loop
\* that never ends).  Termination of every operation is thereby part of what a trace must show.
ExitEv(r) ==
    /\ hx.failed
    /\ r.class = "alloc_error"
    /\ hx' = [hx EXCEPT !.ended = TRUE]
    /\ UNCHANGED gaVars

(* ---- large boxed constructions on a 256 KiB stack (C15) -------------------- *)
\* every constructor over every shape: many small elements, and few elements of 16 KiB (so that a fast path
\* selected by element COUNT is still required to build in the heap block)
BigShapes == [s1m_u64 |-> [n |-> 1048576, esz |-> 8],
              s256x16k |-> [n |-> 256, esz |-> 16384],
              s64x16k |-> [n |-> 64, esz |-> 16384],
              s32x16k |-> [n |-> 32, esz |-> 16384]]
BigCtors == [default_boxed |-> [pat |-> "const", c |-> 0],
             generate |-> [pat |-> "mod1000", c |-> 0],
             box_arr_repeat |-> [pat |-> "const", c |-> 7],
             boxed_from_iter |-> [pat |-> "mod1000", c |-> 0],
             try_boxed_from_iter |-> [pat |-> "mod1000", c |-> 0],
             try_from_vec |-> [pat |-> "mod1000", c |-> 0],
             boxed_map |-> [pat |-> "const", c |-> 3],
             box_arr_list |-> [pat |-> "mod1000", c |-> 0]]      \* (32 x 16 KiB only: a literal list)
ShapeKey(s) == CASE s = "1m_u64" -> "s1m_u64" [] s = "256x16k" -> "s256x16k" [] s = "64x16k" -> "s64x16k" [] s = "32x16k" -> "s32x16k" [] OTHER -> "none"
BigSpecOf(ctor, shape) == LET sh == BigShapes[ShapeKey(shape)] ct == BigCtors[ctor] IN
    [n |-> sh.n, pat |-> ct.pat, c |-> ct.c, bytes |-> sh.n * sh.esz]
ElemAt(s, i) == IF s.pat = "const" THEN s.c ELSE i % 1000           \* 0-based index i
SumOf(s) == IF s.pat = "const" THEN (s.c * s.n) % 1000003
            ELSE LET q == s.n \div 1000 r == s.n % 1000 IN (q * 499500 + (r * (r - 1)) \div 2) % 1000003
BigOK(r) ==
    /\ r.op \in DOMAIN BigCtors /\ ShapeKey(r.shape) \in DOMAIN BigShapes
    /\ LET s == BigSpecOf(r.op, r.shape) IN
       /\ r.n = s.n /\ r.bytes = s.bytes
       /\ r.first = ElemAt(s, 0) /\ r.mid = ElemAt(s, s.n \div 2) /\ r.last = ElemAt(s, s.n - 1)
       /\ r.sum = SumOf(s)

\* consumers of a large boxed array (fold, by-value iteration): they must get through it, whatever its size
BigFoldOK(r) ==
    /\ r.op \in {"boxed_fold", "boxed_into_iter"} /\ ShapeKey(r.shape) \in DOMAIN BigShapes
    /\ LET sh == BigShapes[ShapeKey(r.shape)] IN r.n = sh.n /\ r.sum = SumOf([n |-> sh.n, pat |-> "mod1000", c |-> 0])

(* ---- sequence operations far above the value pool's lengths (2048, 2049, 4097; C09) ---------------------------- *)
\* the array holds its own indices 0..n-1; a result is summarised as <<length, first, last, sum mod 1000003>> (-1: none)
TriSum(k) == (k * (k - 1)) \div 2                                       \* 0 + 1 + ... + (k-1); k <= 4098: fits 32 bits
Summ(len, first, last, sum) == <<len, IF len = 0 THEN -1 ELSE first, IF len = 0 THEN -1 ELSE last, sum % 1000003>>
RangeSumm(a, b) == Summ(b - a, a, b - 1, TriSum(b) - TriSum(a))          \* the elements a .. b-1
BigSeqOK(r) ==
    LET n == r.n  i == r.arg  all == TriSum(n) IN
    CASE r.op = "remove" ->
            /\ i < n /\ r.removed = i
            /\ r.outs = << Summ(n - 1, IF i = 0 THEN 1 ELSE 0, IF i = n - 1 THEN n - 2 ELSE n - 1, all - i),
                           << IF i < n - 1 THEN i + 1 ELSE -1 >> >>
      [] r.op = "swap_remove" ->
            /\ i < n /\ r.removed = i
            \* (the last element takes the place of the removed one: it ends up last again only if that place was the last but one)
            /\ r.outs = << Summ(n - 1, IF i = 0 THEN n - 1 ELSE 0, IF i = n - 2 THEN n - 1 ELSE n - 2, all - i),
                           << IF i < n - 1 THEN n - 1 ELSE -1 >> >>
      [] r.op = "pop_back" -> r.removed = n - 1 /\ r.outs = << RangeSumm(0, n - 1) >>
      [] r.op = "pop_front" -> r.removed = 0 /\ r.outs = << RangeSumm(1, n) >>
      [] r.op = "append" -> r.outs = << RangeSumm(0, n + 1) >>
      [] r.op = "prepend" -> r.outs = << Summ(n + 1, n, n - 1, all + n) >>
      [] r.op = "split1" -> r.outs = << RangeSumm(0, 1), RangeSumm(1, n), RangeSumm(0, n) >>
      [] r.op = "split1024" -> r.outs = << RangeSumm(0, 1024), RangeSumm(1024, n), RangeSumm(0, n) >>
\* serde at lengths above 4096 (C17): bincode (exact size hints, 4 bytes per element, no prefix) and JSON round trips,
\* one element too many / too few rejected
BigSerdeOK(r) == r.bin_len = 4 * r.n /\ r.bin_ok /\ r.json_ok /\ r.too_long_rejected /\ r.too_short_rejected
\* chunk views of slices of zero-sized elements longer than any sized slice can be (C10): counts as for any length,
\* and slice_from_chunks is still the inverse (the driver compares with L div N, L mod N, (L div N) * N in 64 bits)
ZstHugeOK(r) == r.count_ok /\ r.rem_ok /\ r.flat_ok

\* borrowed views of ARRAYS of zero-sized elements whose length exceeds isize::MAX or 32 bits (C02): every view has N
\* elements and starts at the array; a slice is reinterpreted only if its length is exactly N
ZstViewsOK(r) == /\ \A i \in DOMAIN r.views : r.views[i].hi = r.n_hi /\ r.views[i].lo = r.n_lo /\ r.views[i].addr_ok
                 /\ Len(r.views) = 12
                 /\ r.exact_ok /\ r.short_rejected /\ r.long_rejected

\* the by-value iterator over such arrays (C06), O(1) steps only.  Lengths are recorded as deficits N - len, so the deque
\* contract is plain arithmetic: next / next_back take one element, nth(k) / nth_back(k) take k + 1, every step yields an
\* element (the array is far from exhausted), and len, both ends of size_hint, as_slice and as_mut_slice agree after each
StepTakes(st) == CASE st.op = "start" -> 0
                   [] st.op \in {"next", "next_back"} -> 1
                   [] st.op \in {"nth", "nth_back"} -> st.arg + 1
RECURSIVE TakenUpTo(_, _)
TakenUpTo(steps, i) == IF i = 0 THEN 0 ELSE TakenUpTo(steps, i - 1) + StepTakes(steps[i])
ZstIterOK(r) == /\ Len(r.steps) = 9
                /\ \A i \in DOMAIN r.steps :
                      LET st == r.steps[i] d == TakenUpTo(r.steps, i) IN
                        st.some /\ st.len = d /\ st.lo = d /\ st.hi = d /\ st.slice = d /\ st.mslice = d
                /\ r.count = TakenUpTo(r.steps, Len(r.steps))
                /\ r.last_some

\* the length-changing operations on such arrays (C09): result lengths relative to N, the small parts absolutely
ZstSeqExpect == [append |-> <<1>>, prepend |-> <<1>>, pop_back |-> <<-1>>, pop_front |-> <<-1>>,
                 split5 |-> <<-5>>, split5_ref |-> <<-5>>, concat3 |-> <<3>>, concat3_front |-> <<3>>,
                 remove7 |-> <<-1>>, remove_last |-> <<-1>>, swap_remove7 |-> <<-1>>, swap_remove_last |-> <<-1>>,
                 remove_at_n |-> <<>>, swap_remove_at_n |-> <<>>]
ZstSeqOK(r) == /\ {r.ops[i].op : i \in DOMAIN r.ops} = DOMAIN ZstSeqExpect
               /\ \A i \in DOMAIN r.ops :
                     LET o == r.ops[i] IN
                       /\ o.outs = ZstSeqExpect[o.op]
                       /\ o.small = (IF o.op \in {"split5", "split5_ref"} THEN <<5>> ELSE <<>>)
                       /\ o.panicked = (o.op \in {"remove_at_n", "swap_remove_at_n"})       \* index N is out of range

HeapBackedKinds == {"box", "vec", "bslice"}
NeedsBlock(v) == cfg.rec /\ v.kind \in HeapBackedKinds /\ Len(v.items) > 0 /\ ~Anonymous
HeapInv ==
    /\ \A h \in DOMAIN pool : NeedsBlock(pool[h]) => pool[h].blk \in DOMAIN heap
    /\ \A h1, h2 \in DOMAIN pool : (h1 # h2 /\ NeedsBlock(pool[h1]) /\ NeedsBlock(pool[h2])) => pool[h1].blk # pool[h2].blk
HeapQuiescent == heap = <<>>
=============================================================================
