-------------------------------- MODULE Heap --------------------------------
(***************************************************************************)
(* Allocator ledger (C15, C16).  The harness's recording global allocator  *)
(* logs every request the library makes (alloc / realloc / dealloc with    *)
(* size and alignment, blocks named by small ids) interleaved with the     *)
(* operation events.                                                       *)
(*   - every request has a non-zero size                                   *)
(*   - a block is released exactly once, with the layout it was requested  *)
(*     with (realloc: the old layout; the new block takes the new size)    *)
(*   - nothing stays allocated once all values are gone (case_end)         *)
(*   - a heap-backed value (Box / Vec / Box<[T]> of >= 1 non-zero-sized    *)
(*     elements) points into a live block; after it is released that block *)
(*     is gone                                                             *)
(*   - if the allocator reports failure, the only thing that may follow is *)
(*     the process ending through the standard allocation-error path       *)
(* The O(1) conversions (no allocator call, same block) are checked in     *)
(* GA!RetPlain from op.allocs / op.blks.                                   *)
(***************************************************************************)
EXTENDS Views

VARIABLE hx   \* [relblk : handle -> block owed a release, failed, ended]

HxInit == hx = [relblk |-> <<>>, failed |-> FALSE, ended |-> TRUE]

Layout(r) == [size |-> r.size, align |-> r.align]
CountAlloc == IF Idle THEN op ELSE [op EXCEPT !.allocs = @ + 1]

AllocEv(r) ==
    /\ ~hx.failed
    /\ r.p \notin DOMAIN heap
    /\ r.size > 0                                   \* never a zero-size request
    /\ heap' = (r.p :> Layout(r)) @@ heap
    /\ op' = CountAlloc
    /\ UNCHANGED <<life, pool, loose, owed, cfg, hx>>

DeallocEv(r) ==
    /\ r.p \in DOMAIN heap                          \* live: not freed before, not foreign
    /\ heap[r.p] = Layout(r)                        \* released with the layout it was requested with
    /\ heap' = Restrict(heap, DOMAIN heap \ {r.p})
    /\ UNCHANGED <<life, pool, loose, owed, op, cfg, hx>>

ReallocEv(r) ==
    /\ ~hx.failed
    /\ r.p \in DOMAIN heap /\ heap[r.p] = Layout(r)
    /\ r.new > 0
    /\ r.q \notin DOMAIN heap \ {r.p}
    /\ heap' = (r.q :> [size |-> r.new, align |-> r.align]) @@ Restrict(heap, DOMAIN heap \ {r.p})
    /\ op' = CountAlloc
    /\ UNCHANGED <<life, pool, loose, owed, cfg, hx>>

AllocFailEv(r) ==
    /\ ~hx.failed /\ r.size > 0
    /\ hx' = [hx EXCEPT !.failed = TRUE]
    /\ UNCHANGED gaVars

\* after a reported allocation failure the process must end through handle_alloc_error
ExitEv(r) ==
    /\ hx.failed
    /\ r.class = "alloc_error"
    /\ hx' = [hx EXCEPT !.ended = TRUE]
    /\ UNCHANGED gaVars

(* ---- large boxed constructions on a 256 KiB stack (C15) -------------------- *)
BigSpec == [default_boxed |-> [n |-> 1048576, pat |-> "const", c |-> 0, bytes |-> 8388608],
            generate |-> [n |-> 1048576, pat |-> "mod1000", c |-> 0, bytes |-> 8388608],
            box_arr_repeat |-> [n |-> 524288, pat |-> "const", c |-> 7, bytes |-> 4194304],
            boxed_from_iter |-> [n |-> 1048576, pat |-> "mod1000", c |-> 0, bytes |-> 8388608],
            try_boxed_from_iter |-> [n |-> 524288, pat |-> "mod1000", c |-> 0, bytes |-> 4194304],
            boxed_map |-> [n |-> 524288, pat |-> "const", c |-> 3, bytes |-> 4194304],
            \* few, very large elements (one probe value per element is summarised)
            generate_bigelem |-> [n |-> 256, pat |-> "mod1000", c |-> 0, bytes |-> 4194304],
            default_boxed_bigelem |-> [n |-> 384, pat |-> "const", c |-> 0, bytes |-> 3194880],
            default_boxed_32x16k |-> [n |-> 32, pat |-> "const", c |-> 0, bytes |-> 524288],
            generate_8x128k |-> [n |-> 8, pat |-> "mod1000", c |-> 0, bytes |-> 1048576],
            default_boxed_1x512k |-> [n |-> 1, pat |-> "const", c |-> 0, bytes |-> 524288]]
ElemAt(s, i) == IF s.pat = "const" THEN s.c ELSE i % 1000           \* 0-based index i
SumOf(s) == IF s.pat = "const" THEN (s.c * s.n) % 1000003
            ELSE LET q == s.n \div 1000 r == s.n % 1000 IN (q * 499500 + (r * (r - 1)) \div 2) % 1000003
BigOK(r) ==
    /\ r.op \in DOMAIN BigSpec
    /\ LET s == BigSpec[r.op] IN
       /\ r.n = s.n /\ r.bytes = s.bytes
       /\ r.first = ElemAt(s, 0) /\ r.mid = ElemAt(s, s.n \div 2) /\ r.last = ElemAt(s, s.n - 1)
       /\ r.sum = SumOf(s)

HeapBackedKinds == {"box", "vec", "bslice"}
NeedsBlock(v) == cfg.rec /\ v.kind \in HeapBackedKinds /\ Len(v.items) > 0 /\ ~Anonymous
HeapInv ==
    /\ \A h \in DOMAIN pool : NeedsBlock(pool[h]) => pool[h].blk \in DOMAIN heap
    /\ \A h1, h2 \in DOMAIN pool : (h1 # h2 /\ NeedsBlock(pool[h1]) /\ NeedsBlock(pool[h2])) => pool[h1].blk # pool[h2].blk
HeapQuiescent == heap = <<>>
=============================================================================
