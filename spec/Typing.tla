------------------------------- MODULE Typing -------------------------------
(***************************************************************************)
(* The static relation (C12): which programs over the public API must be   *)
(* accepted by the compiler and which rejected.  Three tables:             *)
(*   (i)  length relations: Accept(op, n, m, k) - the same predicates that *)
(*        guard the dynamic actions (Ops!Defined) where an operation has a *)
(*        dynamic counterpart, plus the result-length annotations          *)
(*   (ii) auto traits: a GenericArray / its by-value iterator has Send,    *)
(*        Sync, Clone exactly when the element type has; Copy additionally *)
(*        only for the array                                               *)
(*   (iii) borrows: a reference obtained from the API conflicts with       *)
(*        outliving, moving, mutating or mutably re-borrowing its source   *)
(* The Rust compiler is the decider of each row; this module supplies the  *)
(* systematic enumeration, the expected verdict and its consistency with   *)
(* the dynamic model.                                                      *)
(***************************************************************************)
EXTENDS Ops

LenOps == {"zip", "eq", "lt", "split", "pop_back", "pop_front", "remove", "append_ann", "prepend_ann",
           "concat_ann", "into_array", "from_array", "asref_array", "into_tuple", "from_tuple",
           "flatten_ann", "unflatten_ann", "split_ann", "pop_ann", "map_ann", "zip_ann", "from_slice_infer",
           "from_chunks", "from_chunks_mut", "into_chunks", "into_chunks_mut", "const_len", "const_len_into",
           "inverted_zip", "inverted_zip2", "inverted_zip2_ref"}

\* n, m: operand lengths; k: the length written in the program (annotation / const parameter)
Accept(op, n, m, k) ==
    \* (the inverted forms are what zip dispatches to; they are public trait methods and relate the two lengths themselves)
    CASE op \in {"zip", "eq", "lt", "inverted_zip", "inverted_zip2", "inverted_zip2_ref"} -> n = m
      [] op = "split" -> k <= n
      [] op \in {"pop_back", "pop_front", "remove"} -> n >= 1
      [] op \in {"append_ann", "prepend_ann"} -> k = n + 1
      [] op = "pop_ann" -> n >= 1 /\ k = n - 1
      [] op = "concat_ann" -> k = n + m
      [] op = "split_ann" -> m <= n /\ k = n - m                 \* split at m, second part annotated k
      [] op \in {"into_array", "from_array", "asref_array", "from_slice_infer"} -> k = n
      \* slices of native arrays [T; k] <-> slices of GenericArray<T, n>: the same length
      [] op \in {"from_chunks", "from_chunks_mut", "into_chunks", "into_chunks_mut"} -> k = n
      \* the const-generic spelling of a length, ConstArrayLength<k> (= <Const<k> as IntoArrayLength>::ArrayLength),
      \* names the same type as the typenum Un exactly when k = n
      [] op \in {"const_len", "const_len_into"} -> k = n
      [] op \in {"into_tuple", "from_tuple"} -> k = n /\ k \in 1..12
      [] op = "flatten_ann" -> k = n * m
      [] op = "unflatten_ann" -> m >= 1 /\ n % m = 0 /\ k = n \div m
      [] op \in {"map_ann", "zip_ann"} -> k = n /\ (op = "zip_ann" => n = m)

\* consistency with the guards of the dynamic model
DynamicTwin == [split |-> "split", pop_back |-> "pop_back", pop_front |-> "pop_front", remove |-> "remove"]
ConsistentWithDynamic(op, n, m, k) ==
    op \in DOMAIN DynamicTwin => (Accept(op, n, m, k) <=> Defined(DynamicTwin[op], <<n>>, k))

(* (iv) trait-level length relations: what a function GENERIC over the sequence traits may rely on - the
   associated-type equalities the traits declare.  Each row is a generic function whose body type-checks exactly
   when the relation is provable from the declared bounds; the twin asserts the relation, the non-twin an equality
   that nothing declares.                                                                                        *)
GenericRels == {"sequence_same_length", "mapped_same_length", "lengthen_then_shorten", "shorten_then_lengthen",
                "lengthen_roundtrip_values", "shorten_roundtrip_values", "concat_rest_length",
                "flatten_source_length", "flatten_output_length", "unflatten_source_length", "unflatten_output_length",
                \* ... and the bounds on the associated result types: the parts of a split, the results of concat and
                \* remove are sequences again; the owned Sequence type can be collected into
                "split_first_is_sequence", "split_second_is_sequence", "concat_output_is_sequence",
                "remove_output_is_sequence", "sequence_from_iterator"}

(* (v) bounds of the ordinary trait impls: the array has Default / Debug / PartialEq / Eq / PartialOrd / Ord / Hash exactly
   when its element type has - an element type that implements ONLY the trait in question (and its supertraits) is
   enough ("full"), one that implements nothing ("none") or only the supertraits ("super": PartialEq without Eq, as
   f32) is not.  The by-value iterator likewise for Debug.                                                        *)
BoundTraits == {"Default", "Debug", "PartialEq", "Eq", "PartialOrd", "Ord", "Hash"}
Supers(tr) == CASE tr = "Eq" -> {"PartialEq"} [] tr = "PartialOrd" -> {"PartialEq"}
                [] tr = "Ord" -> {"PartialEq", "Eq", "PartialOrd"} [] OTHER -> {}
BoundElems == {"none", "super", "full"}
ElemTraits(tr, e) == CASE e = "none" -> {} [] e = "super" -> Supers(tr) [] e = "full" -> Supers(tr) \cup {tr}
BoundOK(tr, e) == tr \in ElemTraits(tr, e)

Traits == {"Send", "Sync", "Clone", "Copy"}
Elems == {"u8", "string", "rc", "cell", "rawptr", "noclone", "mutexguard"}
Has(tr, e) ==
    CASE e = "u8" -> TRUE
      [] e = "string" -> tr \in {"Send", "Sync", "Clone"}
      [] e = "rc" -> tr = "Clone"
      [] e = "cell" -> tr \in {"Send", "Clone"}
      [] e = "rawptr" -> tr \in {"Clone", "Copy"}
      [] e = "noclone" -> tr \in {"Send", "Sync"}
      [] e = "mutexguard" -> tr = "Sync"                   \* Sync but not Send
Containers == {"array", "iter"}
HasContainer(tr, c, e) == Has(tr, e) /\ ~(c = "iter" /\ tr = "Copy")

RefApis == {"as_slice", "as_mut_slice", "deref", "from_slice", "from_mut_slice", "try_from_slice", "chunks_from_slice",
            "chunks_from_slice_mut", "slice_from_chunks", "slice_from_chunks_mut", "from_chunks_mut", "into_chunks_mut",
            "try_from_mut_slice", "from_array_mut", "unflatten_mut", "asmut_array", "split_ref", "split_mut", "flatten_ref", "flatten_mut",
            "unflatten_ref", "asref_array", "iter", "iter_mut", "from_array_ref", "arr_contents", "into_chunks"}
MutApis == {"as_mut_slice", "from_mut_slice", "chunks_from_slice_mut", "split_mut", "flatten_mut", "iter_mut",
            "slice_from_chunks_mut", "from_chunks_mut", "into_chunks_mut", "try_from_mut_slice", "from_array_mut",
            "unflatten_mut", "asmut_array"}
Misuses == {"outlive", "move_source", "mutate_source", "second_mut", "from_shared"}
\* which misuse applies to which API: a second &mut, or obtaining the &mut from a shared borrow of the source,
\* only where the API hands out &mut
\* (split / flatten / unflatten pick their shared or mutable implementation from the receiver's type, so
\*  handing them `&src' legitimately yields shared results: "from_shared" is not a misuse there)
ByReceiver == {"split_mut", "flatten_mut", "unflatten_mut"}
Applies(api, mis) == /\ (mis = "second_mut" => api \in MutApis)
                     /\ (mis = "from_shared" => api \in MutApis \ ByReceiver)
                     /\ (api = "arr_contents" => mis = "outlive")
=============================================================================
