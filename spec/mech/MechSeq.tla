------------------------------- MODULE MechSeq -------------------------------
(***************************************************************************)
(* Mechanism model of the raw-pointer sequence operations                  *)
(* (src/sequence.rs:201-520): each operation is transcribed as the list of *)
(* element ranges it reads from its source buffer(s) and writes into its   *)
(* destination buffer(s), in units of one element (pointer casts between   *)
(* *mut T and *mut GenericArray<T, N> scale `add(1)' by N elements).       *)
(*                                                                         *)
(* Checked for every N, K, M, index in the bounds:                         *)
(*   InBounds   every read lies inside its source, every write inside its  *)
(*              destination                                                *)
(*   Partition  the writes of an operation cover its destination exactly   *)
(*              once; the reads consume each source element exactly once   *)
(*              (no element duplicated or forgotten: C03)                  *)
(*   EqualsVec  the resulting sequences equal Ops!Sem, i.e. the Vec        *)
(*              operations (C09)                                           *)
(* One state per case; every case is also emitted as a scenario.           *)
(***************************************************************************)
EXTENDS Ops, TLC, Json

CONSTANTS MaxN

VARIABLES opn, n, arg, m

vars == <<opn, n, arg, m>>

SeqOps == {"append", "prepend", "pop_back", "pop_front", "split", "concat", "remove", "swap_remove"}

Init ==
    /\ opn \in SeqOps
    /\ n \in 0..MaxN
    /\ m \in 0..MaxN
    /\ arg \in 0..(MaxN + 2)
    /\ (opn = "concat" => n + m <= MaxN /\ arg = 0)
    /\ (opn # "concat" => m = 0)
    /\ (opn \in {"append", "prepend"} => arg = 0 /\ n < MaxN)
    /\ (opn \in {"pop_back", "pop_front"} => arg = 0 /\ n >= 1)
    /\ (opn = "split" => arg <= n)
    /\ (opn \in {"remove", "swap_remove"} => n >= 1 /\ arg <= n + 1)

Next == UNCHANGED vars
Spec == Init /\ [][Next]_vars

\* source contents: self = 1..n, the extra operand (last/first/rest) = 101..
Self == [i \in 1..n |-> i]
Rest == [i \in 1..m |-> 100 + i]
Extra == 100

\* a copy step: [src buffer, src offset, dst buffer, dst offset, count]   (offsets 0-based, in elements)
Cp(sb, so, db, d0, c) == [sb |-> sb, so |-> so, db |-> db, d0 |-> d0, c |-> c]

\* source buffers: "self" (n), "rest" (m), "x" (the single element argument, 1)
SrcLen(b) == CASE b = "self" -> n [] b = "rest" -> m [] b = "x" -> 1
\* destination buffers and their lengths per operation
DstLens ==
    CASE opn \in {"append", "prepend"} -> [out |-> n + 1]
      [] opn \in {"pop_back", "pop_front", "remove", "swap_remove"} -> [out |-> n - 1, val |-> 1]
      [] opn = "split" -> [out |-> arg, out2 |-> n - arg]
      [] opn = "concat" -> [out |-> n + m]

\* the copies each operation performs, as written in the code
Copies ==
    CASE opn = "append"    -> <<Cp("self", 0, "out", 0, n), Cp("x", 0, "out", 1 * n, 1)>>        \* out_ptr.add(1) as *mut Self
      [] opn = "prepend"   -> <<Cp("x", 0, "out", 0, 1), Cp("self", 0, "out", 1, n)>>            \* out_ptr.add(1) as *mut T
      [] opn = "pop_back"  -> <<Cp("self", 0, "out", 0, n - 1), Cp("self", n - 1, "val", 0, 1)>>  \* add(Sub1::<N>::USIZE)
      [] opn = "pop_front" -> <<Cp("self", 0, "val", 0, 1), Cp("self", 1, "out", 0, n - 1)>>      \* offset(1)
      [] opn = "split"     -> <<Cp("self", 0, "out", 0, arg), Cp("self", arg, "out2", 0, n - arg)>>
      [] opn = "concat"    -> <<Cp("self", 0, "out", 0, n), Cp("rest", 0, "out", 1 * n, m)>>
      \* remove: read dst; copy(dst.add(1), dst, N - idx - 1) inside self; transmute_copy the first N-1
      [] opn = "remove"    -> IF arg < n
                              THEN <<Cp("self", arg, "val", 0, 1), Cp("self", 0, "out", 0, arg),
                                     Cp("self", arg + 1, "out", arg, n - arg - 1)>>
                              ELSE <<>>
      \* swap_remove: swap(idx, N-1), read the last, transmute_copy the first N-1
      [] opn = "swap_remove" -> IF arg < n
                              THEN <<Cp("self", arg, "val", 0, 1), Cp("self", 0, "out", 0, arg)>>
                                   \o (IF arg < n - 1
                                       THEN <<Cp("self", n - 1, "out", arg, 1), Cp("self", arg + 1, "out", arg + 1, n - arg - 2)>>
                                       ELSE <<>>)
                              ELSE <<>>

PanicsOOB == opn \in {"remove", "swap_remove"} /\ arg >= n

InBounds ==
    \A i \in DOMAIN Copies : LET c == Copies[i] IN
        /\ c.c >= 0 /\ c.so >= 0 /\ c.d0 >= 0
        /\ c.so + c.c <= SrcLen(c.sb)
        /\ c.d0 + c.c <= DstLens[c.db]

\* every destination cell written exactly once, every source cell read exactly once
WritesTo(db, j) == {i \in DOMAIN Copies : Copies[i].db = db /\ Copies[i].d0 <= j /\ j < Copies[i].d0 + Copies[i].c}
ReadsOf(sb, j) == {i \in DOMAIN Copies : Copies[i].sb = sb /\ Copies[i].so <= j /\ j < Copies[i].so + Copies[i].c}
UsedSrcs == CASE opn \in {"append", "prepend"} -> {"self", "x"} [] opn = "concat" -> {"self", "rest"} [] OTHER -> {"self"}
Partition ==
    PanicsOOB \/
    /\ \A db \in DOMAIN DstLens : \A j \in 0..(DstLens[db] - 1) : Cardinality(WritesTo(db, j)) = 1
    /\ \A sb \in UsedSrcs : \A j \in 0..(SrcLen(sb) - 1) : Cardinality(ReadsOf(sb, j)) = 1

\* contents of a destination buffer after the copies
SrcVal(sb, j) == CASE sb = "self" -> Self[j + 1] [] sb = "rest" -> Rest[j + 1] [] sb = "x" -> Extra
DstSeq(db) ==
    [j \in 1..DstLens[db] |->
        LET i == CHOOSE i \in DOMAIN Copies : Copies[i].db = db /\ Copies[i].d0 <= j - 1 /\ j - 1 < Copies[i].d0 + Copies[i].c
        IN SrcVal(Copies[i].sb, Copies[i].so + (j - 1 - Copies[i].d0))]

Expected == Sem(opn, IF opn = "concat" THEN <<Self, Rest>> ELSE <<Self>>, arg, <<Extra>>)
EqualsVec ==
    IF PanicsOOB THEN ~Expected.ok
    ELSE /\ Expected.ok
         /\ DstSeq("out") = Expected.outs[1].items
         /\ (opn = "split" => DstSeq("out2") = Expected.outs[2].items)
         /\ ("val" \in DOMAIN DstLens => DstSeq("val") = Expected.vals)

Emit == PrintT(<<"SCN", ToJson([op |-> opn, n |-> n, arg |-> arg, m |-> m])>>)
=============================================================================
