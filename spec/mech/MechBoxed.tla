------------------------------ MODULE MechBoxed ------------------------------
(***************************************************************************)
(* Mechanism model of the boxed `generate' (src/impl_alloc.rs:168-198),    *)
(* the only place where the crate talks to the allocator directly:         *)
(*   1. obtain the block: dangling if nothing needs to be stored, else     *)
(*      alloc(Layout of GenericArray<MaybeUninit<T>, N>)                   *)
(*   2. on a null return: the standard allocation-error path               *)
(*   3. fill through an IntrusiveArrayBuilder (f may panic at any index:   *)
(*      the builder drops what was written; the block must be released)    *)
(*   4. Box::from_raw: the Box owns the block and releases it with the     *)
(*      same layout (a Box of a zero-size layout releases nothing)         *)
(* Variant = "as_found" transcribes the pinned tree (dangling only when    *)
(* size_of::<T>() == 0, no null check, no release on unwind): it violates  *)
(* the invariants (D3, D4, D5) and is kept as a NEG configuration.         *)
(* Variant = "fixed" is the repaired function.                             *)
(***************************************************************************)
EXTENDS Integers, Sequences, FiniteSets, TLC, Json

CONSTANTS MaxN, Variant

VARIABLES n, esize, panic_at, fail, pc, k, block, built, zeroreq, nulltouched, stdabort, freed_with

vars == <<n, esize, panic_at, fail, pc, k, block, built, zeroreq, nulltouched, stdabort, freed_with>>

LayoutSize == n * esize
NoBlock == -1

Init ==
    /\ n \in 0..MaxN /\ esize \in {0, 4}
    /\ panic_at \in -1..(n - 1)
    /\ fail \in BOOLEAN
    /\ pc = "alloc" /\ k = 0 /\ block = NoBlock /\ built = 0
    /\ zeroreq = FALSE /\ nulltouched = FALSE /\ stdabort = FALSE /\ freed_with = NoBlock

UsesDangling == IF Variant = "as_found" THEN esize = 0 ELSE LayoutSize = 0

Alloc ==
    /\ pc = "alloc"
    /\ IF UsesDangling
       THEN /\ pc' = "fill" /\ UNCHANGED <<block, zeroreq, nulltouched, stdabort>>
       ELSE /\ zeroreq' = (LayoutSize = 0)
            /\ IF fail
               THEN IF Variant = "as_found"
                    THEN /\ nulltouched' = TRUE /\ pc' = "crashed" /\ UNCHANGED <<block, stdabort>>   \* &mut *null
                    ELSE /\ stdabort' = TRUE /\ pc' = "aborted" /\ UNCHANGED <<block, nulltouched>>    \* handle_alloc_error
               ELSE /\ block' = LayoutSize /\ pc' = "fill" /\ UNCHANGED <<nulltouched, stdabort>>
    /\ UNCHANGED <<n, esize, panic_at, fail, k, built, freed_with>>

Fill ==
    /\ pc = "fill"
    /\ IF k = n
       THEN /\ pc' = "boxed" /\ UNCHANGED <<k, built, block, freed_with>>
       ELSE IF k = panic_at
       THEN \* f panics: the builder drops the `built' elements; the block must not leak
            /\ pc' = "unwound"
            /\ IF Variant = "fixed" /\ block # NoBlock
               THEN freed_with' = LayoutSize /\ block' = NoBlock
               ELSE UNCHANGED <<block, freed_with>>
            /\ UNCHANGED <<k, built>>
       ELSE /\ k' = k + 1 /\ built' = built + 1 /\ UNCHANGED <<pc, block, freed_with>>
    /\ UNCHANGED <<n, esize, panic_at, fail, zeroreq, nulltouched, stdabort>>

\* the caller drops the Box: Box<T> releases its block iff the layout of T is not zero-sized
Release ==
    /\ pc = "boxed"
    /\ IF LayoutSize > 0 /\ block # NoBlock
       THEN freed_with' = LayoutSize /\ block' = NoBlock
       ELSE UNCHANGED <<block, freed_with>>
    /\ pc' = "released"
    /\ UNCHANGED <<n, esize, panic_at, fail, k, built, zeroreq, nulltouched, stdabort>>

Next == Alloc \/ Fill \/ Release
Spec == Init /\ [][Next]_vars

NoZeroSizeRequest == ~zeroreq
NullNeverTouched == ~nulltouched
FailureEndsInStdPath == (fail /\ ~UsesDangling /\ pc \notin {"alloc"}) => (pc = "aborted" /\ stdabort)
NoLeak == pc \in {"released", "unwound"} => block = NoBlock
LayoutRoundTrip == freed_with # NoBlock => freed_with = LayoutSize

Emit == pc = "alloc" =>
    PrintT(<<"SCN", ToJson([n |-> n, zst |-> (esize = 0), panic_at |-> panic_at, fail |-> fail])>>)
=============================================================================
