----------------------------- MODULE MechHexSink -----------------------------
(***************************************************************************)
(* Error propagation of generic_hex (src/hex.rs) towards the formatter's   *)
(* sink.  Only the LENGTHS of the pieces handed to write_str matter here   *)
(* (their content is MechHex's business):                                  *)
(*   N <= 1024 : one piece of max_digits characters                        *)
(*   N >  1024 : one piece per chunk of <= 1024 input bytes, each          *)
(*               min(2 * len(chunk), digits_left) characters               *)
(* Every write_str is followed by `?`: the first refusal ends the call     *)
(* with that error (ErrPolicy = "propagate", the code as written).         *)
(* ErrPolicy = "last_wins" is the seeded variation `res = write_str(..)`   *)
(* that keeps going and reports only the last piece's result (NEG).        *)
(* The sink has capacity cap and refuses, as a whole, a piece that does    *)
(* not fit; a later, smaller piece may fit again.                          *)
(* Checked against the contract Hex!HexSinkOK, restated on lengths:        *)
(*   ok = ~refused-any ; ok => everything expected was written ;           *)
(*   expected fits => ok                                                   *)
(***************************************************************************)
EXTENDS Integers, Sequences, TLC, Json

CONSTANTS Ns, ErrPolicy

VARIABLES n, prec, cap

vars == <<n, prec, cap>>

Min2(a, b) == IF a < b THEN a ELSE b
MaxDigitsOf(nn, p) == IF p >= 0 /\ p < 2 * nn THEN p ELSE 2 * nn
MaxDigits == MaxDigitsOf(n, prec)
MaxBytes == (MaxDigits \div 2) + (MaxDigits % 2)

Precs(nn) == {-1, 0, 1, nn, 2 * nn - 1, 2 * nn, 2 * nn + 1, 2049, 4097} \cap (-1..(2 * nn + 2))
Caps(nn, p) == LET e == MaxDigitsOf(nn, p) IN
               {0, 1, 2, 100, 2047, 2048, 2049, 2050, 4096, e - 2048, e - 2047, e - 2, e - 1, e, e + 1} \cap (0..(e + 1))

Init ==
    /\ n \in Ns
    /\ prec \in Precs(n)
    /\ cap \in Caps(n, prec)
Next == UNCHANGED vars
Spec == Init /\ [][Next]_vars

NumChunks == (MaxBytes + 1023) \div 1024
ChunkLen(c) == Min2(c * 1024, MaxBytes) - (c - 1) * 1024
RECURSIVE PieceLens(_, _)
PieceLens(c, left) ==
    IF c > NumChunks THEN <<>>
    ELSE LET k == Min2(2 * ChunkLen(c), left) IN <<k>> \o PieceLens(c + 1, left - k)
Pieces == IF n <= 1024 THEN <<MaxDigits>> ELSE PieceLens(1, MaxDigits)

\* the formatter loop over the pieces: [held, refused, res, stopped]
RECURSIVE Run(_, _)
Run(i, s) ==
    IF i > Len(Pieces) \/ s.stopped THEN s
    ELSE LET fits == s.held + Pieces[i] <= cap
             s2 == [held |-> IF fits THEN s.held + Pieces[i] ELSE s.held,
                    refused |-> s.refused \/ ~fits,
                    res |-> fits,                                       \* result of THIS write_str
                    allok |-> s.allok /\ fits,
                    stopped |-> ErrPolicy = "propagate" /\ ~fits]
         IN Run(i + 1, s2)
Final == Run(1, [held |-> 0, refused |-> FALSE, res |-> TRUE, allok |-> TRUE, stopped |-> FALSE])
Ok == IF ErrPolicy = "propagate" THEN Final.allok ELSE Final.res

\* Hex!HexSinkOK on lengths
SinkContract ==
    /\ Ok = ~Final.refused
    /\ Ok => Final.held = MaxDigits
    /\ MaxDigits <= cap => Ok
\* the pieces are a partition of the expected output (no budget over- or under-run)
RECURSIVE SumSeq(_, _)
SumSeq(s, i) == IF i > Len(s) THEN 0 ELSE s[i] + SumSeq(s, i + 1)
PiecesCover == SumSeq(Pieces, 1) = MaxDigits /\ \A i \in DOMAIN Pieces : Pieces[i] <= 2048 \/ n <= 1024

Emit == PrintT(<<"SCN", ToJson([n |-> n, prec |-> prec, cap |-> cap, ok |-> Ok])>>)
=============================================================================
