------------------------------ MODULE MechSerde ------------------------------
(***************************************************************************)
(* Mechanism model of GAVisitor::visit_seq (src/impl_serde.rs:54-94):      *)
(*   1. up-front size_hint: Some(n) with n # N => Err, nothing read        *)
(*   2. for each of the N destination slots: next_element()? ;             *)
(*      None => stop ; Some(el) => write, position += 1 ; Err => return    *)
(*   3. position = N: if size_hint() # Some(0) then probe one more element *)
(*      (a Dummy, never materialised): Some => Err, None => Ok ; Err => Err*)
(*      position < N => Err                                                *)
(* Source = script over {1 Some, 0 None, 3 Err} + hint mode:               *)
(*   <<"absent">> | <<"truthful">> (elements left) | <<"fixed",first,later>>*)
(* Checked against the C17 outcome rule; the documented out-of-claim case  *)
(* (hint says 0 left while elements remain) is identified, not judged.     *)
(***************************************************************************)
EXTENDS Integers, Sequences, FiniteSets, TLC, Json

CONSTANTS MaxN

VARIABLES n, script, hints

vars == <<n, script, hints>>

At(s, i) == IF i <= Len(s) THEN s[i] ELSE 0
RECURSIVE Remaining(_, _)
Remaining(s, pos) == IF pos <= Len(s) /\ s[pos] \in {1, 3} THEN 1 + Remaining(s, pos + 1) ELSE 0

Scripts(len) == UNION {[1..k -> {0, 1}] : k \in 0..len}
ErrScripts(len) == {Append([i \in 1..k |-> 1], 3) : k \in 0..len}
HintModes(nn) == {<<"absent", 0, 0>>, <<"truthful", 0, 0>>} \cup {<<"fixed", a, b>> : a \in {nn, nn + 1, 0, -1}, b \in {0, 1, -1}}

Init ==
    /\ n \in 0..MaxN
    /\ script \in Scripts(n + 2) \cup ErrScripts(n + 1)
    /\ hints \in HintModes(n)
Next == UNCHANGED vars
Spec == Init /\ [][Next]_vars

\* the answer of size_hint() when `pos - 1' elements have been requested so far (-1 = None)
HintAt(pos) ==
    IF hints[1] = "absent" THEN -1
    ELSE IF hints[1] = "truthful" THEN Remaining(script, pos)
    ELSE IF pos = 1 THEN hints[2] ELSE hints[3]

RECURSIVE Fill(_)
\* returns <<position, status>> : status "full" | "none" | "err"
Fill(k) == IF k = n THEN <<k, "full">>
           ELSE CASE At(script, k + 1) = 1 -> Fill(k + 1)
                  [] At(script, k + 1) = 0 -> <<k, "none">>
                  [] At(script, k + 1) = 3 -> <<k, "err">>

Run ==
    LET h0 == HintAt(1) IN
    IF h0 >= 0 /\ h0 # n THEN [res |-> "err", read |-> 0, polls |-> 0, why |-> "hint"]
    ELSE LET f == Fill(0) IN
         IF f[2] = "err" THEN [res |-> "err", read |-> f[1], polls |-> f[1] + 1, why |-> "element"]
         ELSE IF f[2] = "none" THEN [res |-> "err", read |-> f[1], polls |-> f[1] + 1, why |-> "short"]
         ELSE IF HintAt(n + 1) = 0 THEN [res |-> "ok", read |-> n, polls |-> n, why |-> "hint0"]
         ELSE CASE At(script, n + 1) = 1 -> [res |-> "err", read |-> n, polls |-> n + 1, why |-> "surplus"]
                [] At(script, n + 1) = 0 -> [res |-> "ok", read |-> n, polls |-> n + 1, why |-> "end"]
                [] At(script, n + 1) = 3 -> [res |-> "err", read |-> n, polls |-> n + 1, why |-> "element"]

\* C17
Exactly == (\A i \in 1..n : At(script, i) = 1) /\ At(script, n + 1) = 0
OutOfClaim == Run.why = "hint0" /\ At(script, n + 1) # 0
OkOnlyIfExactly == (Run.res = "ok" /\ ~OutOfClaim) => Exactly
OkIfExactlyAndHonest == (Exactly /\ (HintAt(1) < 0 \/ HintAt(1) = n)) => Run.res = "ok"
PollBound == Run.polls <= n + 1 /\ Run.read <= n
ErrorAtKRejected == (\E i \in 1..n : At(script, i) = 3 /\ \A j \in 1..(i - 1) : At(script, j) = 1)
                       => Run.res = "err"

Emit == PrintT(<<"SCN", ToJson([n |-> n, script |-> script, hints |-> hints, out_of_claim |-> OutOfClaim])>>)
=============================================================================
