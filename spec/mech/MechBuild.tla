------------------------------ MODULE MechBuild ------------------------------
(***************************************************************************)
(* Mechanism model of the builder / consumer bookkeeping behind generate,  *)
(* map, zip, fold and Clone/Default (src/internal.rs, src/lib.rs:500-668,  *)
(* src/sequence.rs:36-75, src/functional.rs).                              *)
(*                                                                         *)
(*   IntrusiveArrayBuilder : `position' = number of initialised output     *)
(*       slots; its Drop releases out[0..position]                         *)
(*   ArrayConsumer         : `position' = number of input slots moved out; *)
(*       its Drop releases in[position..]                                  *)
(*                                                                         *)
(* One loop iteration is three separable steps, because the callback may   *)
(* panic between them:                                                     *)
(*   Take  : ptr::read the inputs of index k, bump the consumer positions  *)
(*   Callf : call f (returns or panics; the value handed to f is f's)      *)
(*   Put   : dst.write(result), bump the builder position                  *)
(* Effects are unguarded and counted; invariants: no slot dropped twice,   *)
(* no uninitialised output slot dropped or returned, and at the end every  *)
(* input element is gone exactly once (dropped by the library, or handed   *)
(* to f) and every produced element is in the result or dropped once.      *)
(*                                                                         *)
(* Variant (constant ConsumerBump):                                        *)
(*   "before_call"  as in the code: position advanced before f(value)      *)
(*   "after_call"   the classic mutation: advanced after f returns         *)
(* Variant (constant BuilderBump): "after_write" (code) | "before_write"   *)
(***************************************************************************)
EXTENDS Integers, Sequences, FiniteSets, TLC, Json, SequencesExt

CONSTANTS MaxN, ConsumerBump, BuilderBump

Ops == {"generate", "map", "zip", "fold"}
\* which operands are consumed by value (drop-tracked through an ArrayConsumer)
Forms == [generate |-> {<<>>},
          map  |-> {<<TRUE>>, <<FALSE>>},
          fold |-> {<<TRUE>>, <<FALSE>>},
          zip  |-> {<<TRUE, TRUE>>, <<TRUE, FALSE>>, <<FALSE, TRUE>>, <<FALSE, FALSE>>}]

VARIABLES
    opn, form, n,
    k,          \* loop index
    pc,         \* "take" | "call" | "put" | "done" | "unwound"
    cpos,       \* consumer position per operand
    bpos,       \* builder position
    ins,        \* [operand -> [1..n -> {"live","moved","dropped"}]]
    outs,       \* [1..n -> {"uninit","init","dropped"}]
    idrops,     \* [operand -> [1..n -> Nat]]
    odrops,     \* [1..n -> Nat]
    handed,     \* number of values handed to f so far, per operand
    bad,        \* an uninitialised / moved slot was dropped or read
    willpanic   \* the callback index at which f panics, or -1

vars == <<opn, form, n, k, pc, cpos, bpos, ins, outs, idrops, odrops, handed, bad, willpanic>>

NOps == Len(form)
ByValOps == {i \in 1..NOps : form[i]}

Init ==
    /\ opn \in Ops
    /\ form \in Forms[opn]
    /\ n \in 0..MaxN
    /\ willpanic \in -1..(n - 1)
    /\ k = 0 /\ pc = "take"
    /\ cpos = [i \in 1..NOps |-> 0] /\ bpos = 0
    /\ ins = [i \in 1..NOps |-> [j \in 1..n |-> "live"]]
    /\ outs = [j \in 1..n |-> "uninit"]
    /\ idrops = [i \in 1..NOps |-> [j \in 1..n |-> 0]]
    /\ odrops = [j \in 1..n |-> 0]
    /\ handed = [i \in 1..NOps |-> 0]
    /\ bad = FALSE

\* read the inputs for index k; bump consumer positions (or not yet, in the mutated order)
Take ==
    /\ pc = "take" /\ k < n
    /\ ins' = [i \in 1..NOps |-> IF i \in ByValOps THEN [ins[i] EXCEPT ![k + 1] = "moved"] ELSE ins[i]]
    /\ bad' = (bad \/ \E i \in 1..NOps : ins[i][k + 1] # "live")
    /\ handed' = [i \in 1..NOps |-> IF i \in ByValOps THEN handed[i] + 1 ELSE handed[i]]
    /\ cpos' = IF ConsumerBump = "before_call"
               THEN [i \in 1..NOps |-> IF i \in ByValOps THEN k + 1 ELSE cpos[i]]
               ELSE cpos
    /\ bpos' = IF BuilderBump = "before_write" /\ opn # "fold" THEN bpos + 1 ELSE bpos
    /\ pc' = "call"
    /\ UNCHANGED <<opn, form, n, k, outs, idrops, odrops, willpanic>>

Finish == /\ pc = "take" /\ k = n
          /\ pc' = "done"
          /\ UNCHANGED <<opn, form, n, k, cpos, bpos, ins, outs, idrops, odrops, handed, bad, willpanic>>

\* builder Drop: out[0..bpos]; consumer Drop: in[cpos..]
Unwind ==
    /\ outs' = [j \in 1..n |-> IF j <= bpos THEN "dropped" ELSE outs[j]]
    /\ odrops' = [j \in 1..n |-> IF j <= bpos THEN odrops[j] + 1 ELSE odrops[j]]
    /\ ins' = [i \in 1..NOps |-> IF i \in ByValOps
                                  THEN [j \in 1..n |-> IF j > cpos[i] THEN "dropped" ELSE ins[i][j]]
                                  ELSE ins[i]]
    /\ idrops' = [i \in 1..NOps |-> IF i \in ByValOps
                                     THEN [j \in 1..n |-> IF j > cpos[i] THEN idrops[i][j] + 1 ELSE idrops[i][j]]
                                     ELSE idrops[i]]
    /\ bad' = (bad \/ (\E j \in 1..bpos : outs[j] # "init")
                   \/ (\E i \in ByValOps : \E j \in (cpos[i] + 1)..n : ins[i][j] # "live"))

Callf ==
    /\ pc = "call"
    /\ IF k = willpanic
       THEN /\ Unwind /\ pc' = "unwound"
            /\ UNCHANGED <<cpos, bpos, k, handed>>
       ELSE /\ cpos' = IF ConsumerBump = "after_call"
                       THEN [i \in 1..NOps |-> IF i \in ByValOps THEN k + 1 ELSE cpos[i]]
                       ELSE cpos
            /\ pc' = "put"
            /\ UNCHANGED <<bpos, k, handed, ins, outs, idrops, odrops, bad>>
    /\ UNCHANGED <<opn, form, n, willpanic>>

Put ==
    /\ pc = "put"
    /\ IF opn = "fold"
       THEN UNCHANGED <<outs, bpos>>
       ELSE /\ outs' = [outs EXCEPT ![k + 1] = "init"]
            /\ bpos' = IF BuilderBump = "after_write" THEN bpos + 1 ELSE bpos
    /\ k' = k + 1 /\ pc' = "take"
    /\ UNCHANGED <<opn, form, n, cpos, ins, idrops, odrops, handed, bad, willpanic>>

Next == Take \/ Finish \/ Callf \/ Put
Spec == Init /\ [][Next]_vars

(* ---- invariants ---------------------------------------------------------- *)
NoDoubleDrop ==
    /\ \A j \in 1..n : odrops[j] <= 1
    /\ \A i \in 1..NOps : \A j \in 1..n : idrops[i][j] <= 1
NoBadAccess == ~bad
\* when the call is over, every by-value input element is gone exactly once
InputsAccounted ==
    pc \in {"done", "unwound"} =>
        \A i \in ByValOps : \A j \in 1..n : ins[i][j] \in {"moved", "dropped"}
\* and every produced element is in the result (done) or dropped (unwound)
OutputsAccounted ==
    /\ pc = "done" /\ opn # "fold" => \A j \in 1..n : outs[j] = "init"
    /\ pc = "unwound" => \A j \in 1..n : outs[j] # "init"
\* a moved-out input (handed to f) is never also dropped by the library
HandedNotDropped == \A i \in ByValOps : \A j \in 1..n : ~(ins[i][j] = "moved" /\ idrops[i][j] > 0)

(* ---- model-to-model conformance ------------------------------------------------------------
   The behaviour of the mechanism model, written in the event vocabulary of the trace specification
   (spec/trace/GATrace.tla): when the model has finished (done / unwound) the whole execution is
   printed as one trace.  The runner validates these traces with TLC against the CONTRACT: every
   trace of the faithful model must be accepted, and the mutated variants (ConsumerBump = "after_call",
   BuilderBump = "before_write") must produce at least one rejected trace - which shows that the
   contract specification by itself distinguishes the correct bookkeeping from the broken one.      *)
InId(i, j) == 100 * i + j
OutId(j) == 1000 + j
Handles == [i \in 1..NOps |-> i]
EvCase == [ev |-> "case_start", case |-> "mech", prop |-> "model", ety |-> "tk", rec |-> FALSE]
EvMk(i) == [ev |-> "mk", h |-> i, kind |-> "arr", items |-> [j \in 1..n |-> InId(i, j)], inner |-> 0, blk |-> 0]
EvCall == [ev |-> "call", op |-> opn, recv |-> Handles, byval |-> form, arg |-> -1, elems |-> <<>>, n |-> n,
           okind |-> "arr", truthful |-> TRUE, spare |-> FALSE]
\* callback j (0-based): the closure receives element j of every operand, drops the by-value ones, returns a fresh element
CbEvents(j, panics) ==
    <<[ev |-> "cb", k |-> j, idx |-> (IF opn = "generate" THEN j ELSE -1),
       args |-> [i \in 1..NOps |-> InId(i, j + 1)], acc |-> (IF opn = "fold" THEN j ELSE 0), pv |-> -1]>>
    \o FlattenSeq([i \in 1..NOps |-> IF form[i] THEN <<[ev |-> "release_elem", id |-> InId(i, j + 1)],
                                                       [ev |-> "drop", id |-> InId(i, j + 1), panic |-> FALSE]>> ELSE <<>>])
    \o <<[ev |-> "cb_ret", k |-> j, ret |-> (IF panics \/ opn = "fold" THEN <<>> ELSE <<OutId(j + 1)>>),
          acc |-> (IF opn = "fold" /\ ~panics THEN j + 1 ELSE 0), panic |-> panics]>>
RECURSIVE CbRange(_, _)
CbRange(a, b) == IF a >= b THEN <<>> ELSE CbEvents(a, FALSE) \o CbRange(a + 1, b)
\* the destructor runs the unwinding performed (Unwind): out[1..bpos], in_i[cpos_i+1..n]; an uninitialised
\* output slot dropped as if initialised shows up as a garbage drop (id -1)
UnwindDrops ==
    [j \in 1..bpos |-> [ev |-> "drop", id |-> (IF j <= k THEN OutId(j) ELSE -1), panic |-> FALSE]]
    \o FlattenSeq([i \in 1..NOps |-> IF form[i] THEN [j \in 1..(n - cpos[i]) |-> [ev |-> "drop", id |-> InId(i, cpos[i] + j), panic |-> FALSE]]
                                       ELSE <<>>])
\* the caller lets go of what it still holds, in handle order
ReleaseOf(h, items) == <<[ev |-> "release", h |-> h]>> \o [j \in 1..Len(items) |-> [ev |-> "drop", id |-> items[j], panic |-> FALSE]]
                       \o <<[ev |-> "released", h |-> h, panicked |-> FALSE]>>
ByRefReleases == FlattenSeq([i \in 1..NOps |-> IF form[i] THEN <<>> ELSE ReleaseOf(i, [j \in 1..n |-> InId(i, j)])])
MechTrace ==
    <<EvCase>> \o [i \in 1..NOps |-> EvMk(i)] \o <<EvCall>>
    \o (IF pc = "done"
        THEN CbRange(0, n)
             \o <<[ev |-> "ret", outs |-> (IF opn = "fold" THEN <<>> ELSE <<[h |-> NOps + 1, kind |-> "arr", items |-> [j \in 1..n |-> OutId(j)], inner |-> 0, blk |-> 0]>>),
                   vals |-> <<>>, obs |-> <<>>, res |-> (IF opn = "fold" THEN n ELSE -1), err |-> FALSE, dbg |-> "", dbgref |-> ""]>>
             \o ByRefReleases
             \o (IF opn = "fold" THEN <<>> ELSE ReleaseOf(NOps + 1, [j \in 1..n |-> OutId(j)]))
        ELSE CbRange(0, k) \o CbEvents(k, TRUE) \o UnwindDrops
             \o <<[ev |-> "unwound", obs |-> <<>>, msg |-> "injected", has_expected_msg |-> FALSE]>>
             \o ByRefReleases)
    \o <<[ev |-> "case_end"]>>
EmitTrace == pc \in {"done", "unwound"} => PrintT(<<"MTR", ToJson(MechTrace)>>)

(* ---- scenario emission: one per initial state (operation x form x N x crash point) ---- *)
EmitInit == pc = "take" /\ k = 0 /\ handed = [i \in 1..NOps |-> 0] /\ bpos = 0 =>
    PrintT(<<"SCN", ToJson([op |-> opn, form |-> form, n |-> n, panic_at |-> willpanic])>>)
=============================================================================
