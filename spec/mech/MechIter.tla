------------------------------ MODULE MechIter ------------------------------
(***************************************************************************)
(* Mechanism model of GenericArrayIter (src/iter.rs): the two indices over *)
(* a ManuallyDrop array, transcribed statement group by statement group.   *)
(* Effects are UNGUARDED (a slot can be dropped twice, read after it was   *)
(* moved or dropped) and counted; the invariants say this never happens    *)
(* and that every operation returns what the deque contract (Ops!Sem)      *)
(* returns on  dq == <<index+1 .. index_back>>  (refinement, C06).         *)
(*                                                                         *)
(* Faults (C05): at most one element `pan' has a destructor that panics    *)
(* (once).  Rust's drop glue for a slice keeps dropping the remaining      *)
(* elements of the slice while unwinding; the function then unwinds at     *)
(* once (statements after the drop_in_place call are skipped).             *)
(*                                                                         *)
(* NthOrder selects the order of the two statements of nth/nth_back:       *)
(*   "drop_then_advance"  the code as found in the pinned tree (D1)        *)
(*   "advance_then_drop"  the repaired code                                *)
(* CloneOwner selects who owns the clones while Clone::clone runs:         *)
(*   "array_then_wrap"  as found: written into a ManuallyDrop array that   *)
(*                      becomes an iterator only after the loop (D2)       *)
(*   "iterator_first"   the repaired code: the new iterator exists first   *)
(*                      and its index_back grows with every clone          *)
(***************************************************************************)
EXTENDS Ops, TLC, Json, SequencesExt

CONSTANTS MaxN, Faults, NthOrder, CloneOwner

VARIABLES
    n,           \* array length
    index, index_back,
    slot,        \* [1..n -> {"live","moved","dropped"}]
    drops,       \* [1..n -> Nat]   destructor runs per slot
    pan,         \* 0, or the slot whose destructor panics (once)
    fired,       \* the fault has happened
    bad,         \* a slot was read / moved out while not live, or an index left its range
    alive,       \* the iterator object still exists
    last,        \* what the last step did, for refinement and scenario emission
    cleak        \* clones made by a clone() call that unwound and were never dropped

vars == <<n, index, index_back, slot, drops, pan, fired, bad, alive, last, cleak>>

Len0 == index_back - index
Dq == [i \in 1..Len0 |-> index + i]

Init ==
    /\ n \in 0..MaxN
    /\ index = 0 /\ index_back = n
    /\ slot = [i \in 1..n |-> "live"]
    /\ drops = [i \in 1..n |-> 0]
    /\ pan \in (IF Faults THEN 0..n ELSE {0})
    /\ fired = FALSE /\ bad = FALSE /\ alive = TRUE
    /\ last = [op |-> "init", arg |-> 0, f |-> 0, b |-> n, res |-> <<>>, exp |-> <<>>, unwound |-> FALSE]
    /\ cleak = 0

(* drop_in_place(array[a..b]) on slots a+1..b: every slot's destructor runs
   (also after one of them panicked); returns the new slot/drops functions
   and whether the call unwinds                                            *)
DropRange(a, b) ==
    LET R == (a + 1)..b IN
    [slot |-> [i \in 1..n |-> IF i \in R THEN "dropped" ELSE slot[i]],
     drops |-> [i \in 1..n |-> IF i \in R THEN drops[i] + 1 ELSE drops[i]],
     unwinds |-> ~fired /\ pan \in R,
     stale |-> \E i \in R : slot[i] # "live"]

\* ptr::read(array[i]) : slot i+1 is moved out
ReadSlot(i) == [slot |-> [slot EXCEPT ![i + 1] = "moved"], stale |-> slot[i + 1] # "live"]

RecE(op, arg, res, exp, unw) ==
    [op |-> op, arg |-> arg, f |-> index, b |-> index_back, res |-> res, exp |-> exp, unwound |-> unw]
Rec(op, arg, res, unw) == RecE(op, arg, res, Sem(op, <<Dq>>, arg, <<>>).vals, unw)

Next_ ==            \* fn next(&mut self)
    /\ alive
    /\ IF index < index_back
       THEN LET r == ReadSlot(index) IN
            /\ slot' = r.slot /\ bad' = (bad \/ r.stale)
            /\ index' = index + 1
            /\ last' = Rec("next", 0, <<index + 1>>, FALSE)
       ELSE /\ last' = Rec("next", 0, <<>>, FALSE)
            /\ UNCHANGED <<slot, bad, index>>
    /\ UNCHANGED <<n, index_back, drops, pan, fired, alive, cleak>>

NextBack ==         \* fn next_back(&mut self)
    /\ alive
    /\ IF index < index_back
       THEN LET r == ReadSlot(index_back - 1) IN
            /\ slot' = r.slot /\ bad' = (bad \/ r.stale)
            /\ index_back' = index_back - 1
            /\ last' = Rec("next_back", 0, <<index_back>>, FALSE)
       ELSE /\ last' = Rec("next_back", 0, <<>>, FALSE)
            /\ UNCHANGED <<slot, bad, index_back>>
    /\ UNCHANGED <<n, index, drops, pan, fired, alive, cleak>>

Nth(k) ==           \* fn nth(&mut self, n)
    /\ alive
    /\ LET next_index == index + Min(k, Len0)
           d == DropRange(index, next_index)
       IN
       IF d.unwinds
       THEN \* a destructor panicked inside drop_in_place: the rest of nth is skipped
            /\ slot' = d.slot /\ drops' = d.drops /\ fired' = TRUE
            /\ bad' = (bad \/ d.stale)
            /\ index' = IF NthOrder = "advance_then_drop" THEN next_index ELSE index
            /\ last' = Rec("nth", k, <<>>, TRUE)
       ELSE \* then self.next() on the advanced index
            /\ drops' = d.drops /\ UNCHANGED fired
            /\ IF next_index < index_back
               THEN /\ slot' = [d.slot EXCEPT ![next_index + 1] = "moved"]
                    /\ bad' = (bad \/ d.stale \/ d.slot[next_index + 1] # "live")
                    /\ index' = next_index + 1
                    /\ last' = Rec("nth", k, <<next_index + 1>>, FALSE)
               ELSE /\ slot' = d.slot /\ bad' = (bad \/ d.stale)
                    /\ index' = next_index
                    /\ last' = Rec("nth", k, <<>>, FALSE)
    /\ UNCHANGED <<n, index_back, pan, alive, cleak>>

NthBack(k) ==       \* fn nth_back(&mut self, n)
    /\ alive
    /\ LET next_back == index_back - Min(k, Len0)
           d == DropRange(next_back, index_back)
       IN
       IF d.unwinds
       THEN /\ slot' = d.slot /\ drops' = d.drops /\ fired' = TRUE
            /\ bad' = (bad \/ d.stale)
            /\ index_back' = IF NthOrder = "advance_then_drop" THEN next_back ELSE index_back
            /\ last' = Rec("nth_back", k, <<>>, TRUE)
       ELSE /\ drops' = d.drops /\ UNCHANGED fired
            /\ IF index < next_back
               THEN /\ slot' = [d.slot EXCEPT ![next_back] = "moved"]
                    /\ bad' = (bad \/ d.stale \/ d.slot[next_back] # "live")
                    /\ index_back' = next_back - 1
                    /\ last' = Rec("nth_back", k, <<next_back>>, FALSE)
               ELSE /\ slot' = d.slot /\ bad' = (bad \/ d.stale)
                    /\ index_back' = next_back
                    /\ last' = Rec("nth_back", k, <<>>, FALSE)
    /\ UNCHANGED <<n, index, pan, alive, cleak>>

\* impl Drop: drop_in_place(self.as_mut_slice())
DropIter(opname) ==
    /\ alive
    /\ LET d == DropRange(index, index_back) IN
       /\ slot' = d.slot /\ drops' = d.drops
       /\ fired' = (fired \/ d.unwinds)
       /\ bad' = (bad \/ d.stale)
       /\ last' = RecE(opname, 0, <<>>, <<>>, d.unwinds)
    /\ alive' = FALSE
    /\ UNCHANGED <<n, index, index_back, pan, cleak>>

\* fn count(self) = self.len(), then self is dropped
Count == DropIter("count")

\* fn last(mut self) = self.next_back(), then self is dropped
LastOp ==
    /\ alive
    /\ IF index < index_back
       THEN LET r == ReadSlot(index_back - 1)
                R == (index + 1)..(index_back - 1)
            IN
            /\ slot' = [i \in 1..n |-> IF i \in R THEN "dropped" ELSE r.slot[i]]
            /\ drops' = [i \in 1..n |-> IF i \in R THEN drops[i] + 1 ELSE drops[i]]
            /\ fired' = (fired \/ (~fired /\ pan \in R))
            /\ bad' = (bad \/ r.stale \/ \E i \in R : slot[i] # "live")
            /\ last' = Rec("last", 0, <<index_back>>, ~fired /\ pan \in R)
       ELSE /\ last' = Rec("last", 0, <<>>, FALSE)
            /\ UNCHANGED <<slot, drops, fired, bad>>
    /\ alive' = FALSE
    /\ UNCHANGED <<n, index, index_back, pan, cleak>>

\* observers: len / size_hint / as_slice / Debug / clone read only index..index_back
Observe(opname) ==
    /\ alive
    /\ bad' = (bad \/ \E i \in (index + 1)..index_back : slot[i] # "live")
    /\ last' = RecE(opname, 0, Dq, Sem("as_slice", <<Dq>>, 0, <<>>).recv, FALSE)
    /\ UNCHANGED <<n, index, index_back, slot, drops, pan, fired, alive, cleak>>

\* fold / rfold consume everything through ptr::read + index bump, then forget(self)
FoldAll(opname) ==
    /\ alive
    /\ slot' = [i \in 1..n |-> IF i \in (index + 1)..index_back THEN "moved" ELSE slot[i]]
    /\ bad' = (bad \/ \E i \in (index + 1)..index_back : slot[i] # "live")
    /\ alive' = FALSE
    /\ last' = RecE(opname, 0, Dq, Dq, FALSE)
    /\ UNCHANGED <<n, index, index_back, drops, pan, fired, cleak>>

\* impl Clone: for (dst, src) in new.zip(remaining) { write(dst, src.clone()); count += 1 }
\* cp = 0: no fault; cp = j: Clone::clone of the j-th remaining element panics (j-1 clones exist then)
CloneIter(cp) ==
    /\ alive /\ cp \in 0..Len0
    /\ bad' = (bad \/ \E i \in (index + 1)..index_back : slot[i] # "live")
    /\ cleak' = IF cp > 0 /\ CloneOwner = "array_then_wrap" THEN cleak + (cp - 1) ELSE cleak
    /\ last' = RecE("iter_clone", cp, Dq, Dq, cp > 0)
    /\ UNCHANGED <<n, index, index_back, slot, drops, pan, fired, alive>>

Step ==
    \/ Next_ \/ NextBack
    \/ \E k \in 0..(Len0 + 2) : Nth(k) \/ NthBack(k)
    \/ Count \/ LastOp \/ DropIter("drop")
    \/ \E o \in {"len", "size_hint", "as_slice", "debug"} : Observe(o)
    \/ \E cp \in 0..Len0 : (cp = 0 \/ Faults) /\ CloneIter(cp)
    \/ \E o \in {"iter_fold", "iter_rfold"} : FoldAll(o)

Spec == Init /\ [][Step]_vars

(* ---- invariants --------------------------------------------------------- *)
IndexOK == 0 <= index /\ index <= index_back /\ index_back <= n
NoDoubleDrop == \A i \in 1..n : drops[i] <= 1
NoStaleAccess == ~bad
\* every operation returns what the deque contract returns (refinement)
Refines == last.unwound \/ last.res = last.exp
\* the live slots are exactly the window, as the struct comment claims
WindowLive == alive /\ ~fired => \A i \in 1..n : (slot[i] = "live") <=> (index < i /\ i <= index_back)
\* without faults nothing leaks once the iterator is gone
NoLeak == (~alive /\ ~fired) => \A i \in 1..n : slot[i] # "live"

\* a panicking Clone::clone leaves no clone behind (C04 for the iterator)
NoCloneLeak == cleak = 0

(* ---- model-to-model conformance ------------------------------------------------------------
   One transition of this model (from a position reached by next / next_back only), written in the
   event vocabulary of the trace specification: setup calls, the operation with the destructor runs
   the model performed (the faulty one marked), its return or unwinding with the window the model is
   left with, then the teardown of the iterator as the model would perform it.  The faithful model's
   traces must all be accepted by the contract; the as-found nth order produces rejected ones.        *)
Canonical == \A i \in 1..n : (i <= index \/ i > index_back) => slot[i] = "moved"
Win(a, b) == [i \in 1..(b - a) |-> a + i]
Obs(a, b) == <<[h |-> 2, items |-> Win(a, b), len |-> b - a, lo |-> b - a, hi |-> b - a]>>
CallEv(name, argv, byv) == [ev |-> "call", op |-> name, recv |-> <<2>>, byval |-> <<byv>>, arg |-> argv, elems |-> <<>>,
                            n |-> 0, okind |-> "arr", truthful |-> TRUE, spare |-> FALSE]
RetEv(vals, a, b) == [ev |-> "ret", outs |-> <<>>, vals |-> vals, obs |-> Obs(a, b), res |-> -1, err |-> FALSE, dbg |-> "", dbgref |-> ""]
RECURSIVE SetupFront(_), SetupBack(_, _)
SetupFront(j) == IF j >= index THEN <<>>
                 ELSE <<CallEv("next", -1, FALSE), RetEv(<<j + 1>>, j + 1, n)>> \o SetupFront(j + 1)
SetupBack(j, fr) == IF j <= index_back THEN <<>>
                    ELSE <<CallEv("next_back", -1, FALSE), RetEv(<<j>>, fr, j - 1)>> \o SetupBack(j - 1, fr)
\* destructor runs of this step, in slot order; the one that panics is marked
StepDrops == LET D == {i \in 1..n : drops'[i] > drops[i]} IN
             [j \in 1..Cardinality(D) |->
                LET i == CHOOSE x \in D : Cardinality({y \in D : y < x}) = j - 1
                IN [ev |-> "drop", id |-> i, panic |-> (fired' /\ ~fired /\ i = pan)]]
\* teardown of the iterator as the model would do it from the successor state
TearDrops == [j \in 1..(index_back' - index') |-> [ev |-> "drop", id |-> index' + j, panic |-> FALSE]]
Yielded == {i \in 1..n : slot'[i] = "moved"}
LooseRelease == FlattenSeq([j \in 1..Cardinality(Yielded) |->
                   LET i == CHOOSE x \in Yielded : Cardinality({y \in Yielded : y < x}) = j - 1
                   IN <<[ev |-> "release_elem", id |-> i], [ev |-> "drop", id |-> i, panic |-> FALSE]>>])
StepTrace ==
    <<[ev |-> "case_start", case |-> "mech", prop |-> "model", ety |-> "tk", rec |-> FALSE],
      [ev |-> "mk", h |-> 1, kind |-> "arr", items |-> Win(0, n), inner |-> 0, blk |-> 0],
      [ev |-> "call", op |-> "into_iter", recv |-> <<1>>, byval |-> <<TRUE>>, arg |-> -1, elems |-> <<>>, n |-> n, okind |-> "arr", truthful |-> TRUE, spare |-> FALSE],
      [ev |-> "ret", outs |-> <<[h |-> 2, kind |-> "iter", items |-> Win(0, n), inner |-> 0, blk |-> 0]>>, vals |-> <<>>, obs |-> <<>>,
       res |-> -1, err |-> FALSE, dbg |-> "", dbgref |-> ""]>>
    \o SetupFront(0) \o SetupBack(n, index)
    \o <<CallEv(last'.op, IF last'.op \in {"nth", "nth_back"} THEN last'.arg ELSE -1, FALSE)>>
    \o StepDrops
    \o (IF last'.unwound
        THEN <<[ev |-> "unwound", obs |-> Obs(index', index_back'), msg |-> "injected", has_expected_msg |-> FALSE]>>
        ELSE <<RetEv(last'.res, index', index_back')>>)
    \o <<[ev |-> "release", h |-> 2]>> \o TearDrops \o <<[ev |-> "released", h |-> 2, panicked |-> FALSE]>>
    \o LooseRelease
    \o <<[ev |-> "case_end"]>>
EmitTr == (Canonical /\ alive /\ ~fired /\ last'.op \in {"next", "next_back", "nth", "nth_back"})
              => PrintT(<<"MTR", ToJson(StepTrace)>>)

(* ---- scenario emission: one line per explored transition ---------------- *)
Emit ==
    /\ Assert(last'.unwound \/ last'.res = last'.exp, <<"refinement violated", last'>>)
    /\ (last.unwound \/ fired) \/ PrintT(<<"SCN", ToJson([n |-> n, f |-> last'.f, b |-> last'.b, op |-> last'.op, arg |-> last'.arg,
                            pan |-> pan, cpan |-> IF last'.op = "iter_clone" /\ last'.arg > 0 THEN last'.f + last'.arg ELSE 0])>>)
\* moved-out and dropped slots are both "gone": any later access to either sets `bad'
View == <<n, index, index_back, [i \in 1..n |-> slot[i] = "live"], [i \in 1..n |-> drops[i] > 1],
          pan, fired, bad, alive, cleak > 0>>
=============================================================================
