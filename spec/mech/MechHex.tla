------------------------------- MODULE MechHex -------------------------------
(***************************************************************************)
(* Mechanism model of generic_hex (src/hex.rs:53-104) as written:          *)
(*   max_digits = min(precision, 2N) ; max_bytes = ceil(max_digits / 2)    *)
(*   input = arr[..max_bytes]                       (get: max_bytes <= N)  *)
(*   N <= 1024:  buf = [0; 2N]                                             *)
(*        N < 16: encode the WHOLE array into buf                          *)
(*        else:   encode input into buf                                    *)
(*        write buf[..max_digits]                  (unchecked: <= 2N)      *)
(*   N > 1024:   buf = [0; 2048]; digits_left = max_digits                 *)
(*        for each chunk of <= 1024 bytes of input: encode chunk into buf; *)
(*        n = min(2*len(chunk), digits_left); write buf[..n]; left -= n    *)
(* hex_encode(src, dst) writes 2*len(src) digits at the start of dst and   *)
(* requires len(dst) >= 2*len(src) (an unchecked precondition).            *)
(* Checked: output = Hex!Expected and every unchecked precondition holds,  *)
(* for every (N, precision, case) of the configuration.                    *)
(***************************************************************************)
EXTENDS Hex, TLC, FiniteSets, Json

CONSTANTS SmallNs, BigNs, ChunkBudget    \* ChunkBudget = "min" as written; "full" = the off-by-budget mutation (NEG)

VARIABLES n, prec, upper

vars == <<n, prec, upper>>

BoundaryPrecs(nn) == ({-1, 0, 1, 2, 3, 2047, 2048, 2049, 4095, 4096, 4097, 2 * nn - 1, 2 * nn, 2 * nn + 1, nn, nn + 1} \cap (-1..(2 * nn + 2)))

Init ==
    /\ n \in SmallNs \cup BigNs
    /\ prec \in (IF n \in SmallNs THEN -1..(2 * n + 2) ELSE BoundaryPrecs(n))
    /\ upper \in BOOLEAN
Next == UNCHANGED vars
Spec == Init /\ [][Next]_vars

arr == Bytes(n, "lin")
MaxDigits == IF prec >= 0 /\ prec < 2 * n THEN prec ELSE 2 * n
MaxBytes == (MaxDigits \div 2) + (MaxDigits % 2)
Input == SubSeq(arr, 1, MaxBytes)

\* hex_encode(src, dst): dst with its first 2*len(src) cells overwritten
Encode(src, dst) == [j \in 1..Len(dst) |-> IF j <= 2 * Len(src) THEN Digits(src, upper)[j] ELSE dst[j]]
Zeros(k) == [j \in 1..k |-> 0]

SmallOut ==
    LET buf == IF n < 16 THEN Encode(arr, Zeros(2 * n)) ELSE Encode(Input, Zeros(2 * n))
    IN SubSeq(buf, 1, MaxDigits)

NumChunks == (MaxBytes + 1023) \div 1024
Chunk(c) == SubSeq(Input, (c - 1) * 1024 + 1, HexMin(c * 1024, MaxBytes))
RECURSIVE BigFrom(_, _, _)
BigFrom(c, left, buf) ==
    IF c > NumChunks THEN <<>>
    ELSE LET b2 == Encode(Chunk(c), buf)
             k == IF ChunkBudget = "min" THEN HexMin(2 * Len(Chunk(c)), left) ELSE 2 * Len(Chunk(c))
         IN SubSeq(b2, 1, k) \o BigFrom(c + 1, left - k, b2)
BigOut == BigFrom(1, MaxDigits, Zeros(2048))

Out == IF n <= 1024 THEN SmallOut ELSE BigOut

MatchesDefinition == Out = Expected(arr, prec, upper)
\* the unchecked preconditions
PrecondSlice == MaxBytes <= n                                        \* &arr[..max_bytes] / unreachable_unchecked
PrecondSmallBuf == n <= 1024 => MaxDigits <= 2 * n                   \* buf.get_unchecked(..max_digits)
PrecondChunks == n > 1024 => \A c \in 1..NumChunks : 2 * Len(Chunk(c)) <= 2048
Safe == PrecondSlice /\ PrecondSmallBuf /\ PrecondChunks

Emit == PrintT(<<"SCN", ToJson([n |-> n, prec |-> prec, upper |-> upper])>>)
=============================================================================
