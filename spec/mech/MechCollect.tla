----------------------------- MODULE MechCollect -----------------------------
(***************************************************************************)
(* Mechanism model of try_from_iter (src/lib.rs:957-987) and               *)
(* try_boxed_from_iter (src/impl_alloc.rs:116-140) as written:             *)
(*   1. size_hint pre-check: lower > N or upper < N  =>  Err, no poll      *)
(*   2. fill: zip(destination slots, source) - stops when the slots are    *)
(*      used up (without polling) or when the source returns None          *)
(*   3. not full => Err without another poll; full => ONE more poll:       *)
(*      Some => Err (the surplus item is dropped), None => Ok              *)
(* Source = a script over {1 (Some), 0 (None), 2 (panic)}, not fused;      *)
(* hint = <<lo, hi>> (hi = -1: none), possibly lying.                      *)
(* Checked against the contract's outcome rule (Collect.tla / C07) for     *)
(* every N, script and hint in the bounds; every case is a scenario.       *)
(***************************************************************************)
EXTENDS Integers, Sequences, FiniteSets, TLC, Json

CONSTANTS MaxN, Probe   \* Probe = TRUE: the code as written; FALSE: the surplus probe removed (NEG)

VARIABLES n, script, hint

vars == <<n, script, hint>>

At(s, i) == IF i <= Len(s) THEN s[i] ELSE 0       \* past the end of the script: None

Scripts(len) == UNION {[1..k -> {0, 1}] : k \in 0..len}
PanicScripts(len) == {Append([i \in 1..k |-> 1], 2) : k \in 0..len}
\* (2147483647 stands for usize::MAX: an upper bound that cannot be incremented, a lower bound beyond every N)
Hints(nn) == {<<0, -1>>, <<0, nn + 5>>, <<nn, nn>>, <<nn + 1, -1>>, <<nn + 2, nn + 2>>, <<0, 0>>, <<1, 1>>,
              <<0, 2147483647>>, <<2147483647, -1>>,
              <<nn + 2, 1>>, <<2147483647, 0>>}            \* self-contradictory: lower bound above the upper bound
             \cup (IF nn > 0 THEN {<<0, nn - 1>>} ELSE {})

Init ==
    /\ n \in 0..MaxN
    /\ script \in Scripts(n + 3) \cup PanicScripts(n + 1)
    /\ hint \in Hints(n)
Next == UNCHANGED vars
Spec == Init /\ [][Next]_vars

Ruled == hint[1] > n \/ (hint[2] >= 0 /\ hint[2] < n)

\* number of items written by the fill loop: stops at the first non-Some among the first n polls
RECURSIVE Filled(_)
Filled(k) == IF k < n /\ At(script, k + 1) = 1 THEN Filled(k + 1) ELSE k

Run ==
    IF Ruled THEN [res |-> "err", polls |-> 0, got |-> 0, afterNone |-> FALSE]
    ELSE LET k == Filled(0) IN
         IF k < n
         THEN \* poll k+1 answered None or panicked
              [res |-> IF At(script, k + 1) = 2 THEN "panic" ELSE "err", polls |-> k + 1, got |-> k, afterNone |-> FALSE]
         ELSE IF ~Probe THEN [res |-> "ok", polls |-> n, got |-> n, afterNone |-> FALSE]
         ELSE LET x == At(script, n + 1) IN
              [res |-> CASE x = 1 -> "err" [] x = 0 -> "ok" [] x = 2 -> "panic",
               polls |-> n + 1, got |-> IF x = 1 THEN n + 1 ELSE n, afterNone |-> FALSE]

\* the contract (C07)
ExactSource == (\A i \in 1..n : At(script, i) = 1) /\ At(script, n + 1) = 0
OkOnlyIfExact == Run.res = "ok" => ExactSource
OkIfExactAndNotRuled == (ExactSource /\ ~Ruled) => Run.res = "ok"
PollBound == Run.polls <= n + 1
NeverAfterNone == \A i \in 1..Run.polls : i < Run.polls => At(script, i) # 0
PanicOnlyFromSource == Run.res = "panic" => At(script, Run.polls) = 2

Emit == PrintT(<<"SCN", ToJson([n |-> n, script |-> script, hint |-> hint])>>)
=============================================================================
