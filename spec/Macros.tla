------------------------------- MODULE Macros -------------------------------
(***************************************************************************)
(* arr! / box_arr! (C20) and the const API under the const evaluator (C18).*)
(*                                                                         *)
(* C20.  A generated program evaluates each macro invocation with element  *)
(* expressions e(i) that record their evaluation (value 1000 + i):         *)
(*   list forms      evaluated once each, left to right; element i holds   *)
(*                   the value of e_i; length = number of expressions;     *)
(*                   trailing comma and empty list accepted                *)
(*   repeat forms    [x; N] with a type-level or constant N: x evaluated   *)
(*                   once, N copies                                        *)
(*   const forms     the same literals as const items (no evaluation at    *)
(*                   run time)                                             *)
(*   box_arr!        equal to arr! with the same arguments                 *)
(*                                                                         *)
(* C18.  Every const fn is evaluated twice on the same input - inside a    *)
(* const item (by the compiler's const evaluator) and at run time - and    *)
(* summarised as <<outcome, len1, sum1, len2, sum2, count>>; both must     *)
(* equal the summary the memory model (Views!ViewExp) predicts.            *)
(* Source cells hold 1, 2, 3, ...; mutable forms write 99 through the      *)
(* first cell of each returned part before the source is read back.        *)
(***************************************************************************)
EXTENDS Serde, MacroDefs

\* sum of the cell values a..b (cells hold their 1-based index; zero-sized elements read as 0)
SumCells(a, b, ety) == IF ety = "unit" \/ a > b THEN 0 ELSE ((b * (b + 1)) - ((a - 1) * a)) \div 2
\* the same after 99 was written into cell a
SumPoked(a, b, ety) == IF ety = "unit" \/ a > b THEN 0 ELSE SumCells(a, b, ety) - a + 99

ConstExp(api, n, l, m, ety) ==
    LET e == ViewExp(api, n, l, 0, m)
        ok1(len, sum) == <<0, len, sum, 0, 0, -1>>
        err == <<1, 0, 0, 0, 0, -1>>
    IN
    CASE api \in {"try_from_slice", "from_slice"} -> IF l = n THEN ok1(n, SumCells(1, n, ety)) ELSE err
      [] api \in {"try_from_mut_slice", "from_mut_slice"} -> IF l = n THEN ok1(n, SumPoked(1, n, ety)) ELSE err
      [] api = "chunks_from_slice" ->
            <<0, e.parts[1].len, SumCells(1, e.parts[1].len, ety), e.parts[2].len, SumCells(e.parts[2].off + 1, l, ety), e.cnt>>
      [] api = "chunks_from_slice_mut" ->
            <<0, e.parts[1].len, SumPoked(1, e.parts[1].len, ety), e.parts[2].len, SumPoked(e.parts[2].off + 1, l, ety), e.cnt>>
      [] api \in {"from_chunks", "into_chunks"} -> <<0, m * n, SumCells(1, m * n, ety), 0, 0, m>>
      \* the mutable casts are written through (first cell), also inside the const evaluator
      [] api \in {"from_chunks_mut", "into_chunks_mut"} -> <<0, m * n, SumPoked(1, m * n, ety), 0, 0, m>>
      [] api = "slice_from_chunks" -> ok1(m * n, SumCells(1, m * n, ety))
      [] api = "slice_from_chunks_mut" -> ok1(m * n, SumPoked(1, m * n, ety))
      [] api = "array_roundtrip" -> <<0, n, SumCells(1, n, ety), n, SumCells(1, n, ety), -1>>
      [] api = "uninit_assume_init" -> ok1(n, SumCells(1, n, ety))
      \* const_transmute::<[u8; 4n], [u32; n]>: n words, each the same byte pattern (summed as n ones)
      [] api = "const_transmute" -> ok1(n, n)

ConstRtOK(r) ==
    /\ r.cv = r.rv                                             \* compile time = run time
    /\ r.cv = ConstExp(r.api, r.n, r.l, r.m, r.ety)            \* and both are what the model predicts
=============================================================================
