-------------------------------- MODULE Serde --------------------------------
(***************************************************************************)
(* Serde (C17).                                                            *)
(*                                                                         *)
(* Serialisation: the call sequence a Serializer sees must be              *)
(*   serialize_tuple(N), serialize_element x N in index order, end         *)
(* (a tuple: no length prefix in non-self-describing formats).             *)
(*                                                                         *)
(* Deserialisation is a library call whose callbacks are the SeqAccess     *)
(* methods of a (scripted or real) Deserializer:                           *)
(*   DeTuple(len)   deserialize_tuple was asked for exactly N              *)
(*   SHint(v)       size_hint answered (v = -1: None)                      *)
(*   SElem / SElemRet  next_element: an element is materialised (MkDe) or  *)
(*                  not (the surplus probe), None, or an element error     *)
(* What the format says about itself (is_human_readable) is not an input   *)
(* of the rule: scripted sources are run with both answers.                *)
(* Outcome rule: Ok only if exactly N elements were materialised, no error *)
(* occurred, the up-front hint (if any) was N, and the input then ended    *)
(* (None) - or announced "nothing left" (hint 0), the documented           *)
(* out-of-claim case; in every other case Err, with every materialised     *)
(* element dropped exactly once.  Ok => element i is the i-th one read.    *)
(* For opaque real formats (JSON, bincode, Value) the callbacks are not    *)
(* visible; the harness states what the input offers (count, index of the  *)
(* unparsable element) and the same outcome rule is applied to that.       *)
(***************************************************************************)
EXTENDS Heap

IsDe == ~Idle /\ op.name \in {"deserialize", "deserialize_in_place"}

SerOK(r) ==
    /\ r.tuple_len = r.n                       \* serialize_tuple(N): fixed size, no length prefix
    /\ r.elems = r.items                       \* N elements, in index order
    /\ Len(r.items) = r.n
    /\ r.ended /\ r.other = 0                  \* end() called; nothing else

\* byte-level check on real formats: identical to the same elements as a tuple / native array
FmtOK(r) == r.same_as_native /\ r.roundtrip_equal

DeTuple(r) ==
    /\ IsDe /\ op.phase = "idle"
    /\ r.len = op.n
    /\ UNCHANGED gaVars

SHint(r) ==
    /\ IsDe /\ op.phase = "idle"
    /\ op' = [op EXCEPT !.hints = Append(@, [lo |-> r.val, hi |-> r.val, at |-> op.polls])]
    /\ UNCHANGED <<life, pool, loose, owed, heap, cfg>>

SElem ==
    /\ IsDe /\ op.phase = "idle"
    \* (the property bounds neither the number of next_element calls nor calls after None: a visitor that
    \*  keeps reading in order to report how many elements there were is still correct)
    /\ op' = [op EXCEPT !.polls = @ + 1, !.phase = "incb", !.cur = <<>>]
    /\ UNCHANGED <<life, pool, loose, owed, heap, cfg>>

\* an element value is materialised by the element's Deserialize impl
MkDe(e) ==
    /\ IsDe
    /\ (op.phase = "incb" \/ op.okind = "opaque")
    /\ ~Known(e)
    /\ life' = BornFn({e})
    /\ op' = [op EXCEPT !.got = Append(@, e), !.cur = <<e>>]
    /\ UNCHANGED <<pool, loose, owed, heap, cfg>>

\* r.kind \in {"some","none","err"}
SElemRet(r) ==
    /\ IsDe /\ op.phase = "incb"
    /\ CASE r.kind = "some" -> op' = [op EXCEPT !.phase = "idle",
                                                !.acc = IF op.cur = <<>> THEN 1 ELSE @]      \* acc = 1: a surplus element was seen
         [] r.kind = "none" -> op.cur = <<>> /\ op' = [op EXCEPT !.phase = "idle", !.sawNone = TRUE]
         [] r.kind = "err"  -> op.cur = <<>> /\ op' = [op EXCEPT !.phase = "idle", !.k = 1]      \* k = 1: an element failed to parse
    /\ UNCHANGED <<life, pool, loose, owed, heap, cfg>>

DeDrop(e, panics) ==
    /\ IsDe /\ ~panics
    /\ e \in SeqRange(op.got) \ op.gdropped /\ Live(e)
    /\ life' = [life EXCEPT ![e] = "dropped"]
    /\ op' = [op EXCEPT !.gdropped = @ \cup {e}]
    /\ UNCHANGED <<pool, loose, owed, heap, cfg>>

UpfrontHints == {i \in DOMAIN op.hints : op.hints[i].at = 0 /\ op.hints[i].lo >= 0}
BadUpfront == \E i \in UpfrontHints : op.hints[i].lo # op.n
\* "nothing left" announced after N elements: the surplus is by design not probed (outside the claim)
SaidNothingLeft == \E i \in DOMAIN op.hints : op.hints[i].at = op.n /\ op.hints[i].lo = 0
ScriptedOkAllowed ==
    /\ Len(op.got) = op.n /\ op.k = 0 /\ op.acc = 0 /\ ~BadUpfront
    /\ (op.sawNone \/ SaidNothingLeft)
ScriptedOkRequired ==
    Len(op.got) = op.n /\ op.k = 0 /\ op.acc = 0 /\ ~BadUpfront /\ op.sawNone
\* opaque formats: op.arg = number of elements the input offers, op.polls unused, op.srcs = <<>>,
\* op.truthful = (no element of the input is unparsable)
OpaqueOk == op.arg = op.n /\ op.truthful

(* Deserialize::deserialize_in_place(d, &mut place) - serde's hidden entry point, by default `*place = deserialize(d)?'.
   Same outcome rule.  Ok: the place holds exactly the N materialised elements and everything it held before has been
   dropped.  Err: the place is still a valid array made of elements it held before and of materialised ones, each at
   most once; every other such element has been dropped (scripted sources only).                                    *)
RetDeInPlace(r) ==
    /\ IsDe /\ op.name = "deserialize_in_place" /\ op.phase = "idle" /\ op.okind # "opaque"
    /\ r.vals = <<>> /\ r.outs = <<>>
    /\ Len(r.obs) = 1 /\ r.obs[1].h = op.recv[1]
    /\ LET w == r.obs[1].items
           undropped == SeqRange(op.got) \ op.gdropped
       IN
       /\ NoDup(w) /\ Len(w) = op.n
       /\ IF r.err
          THEN /\ ~ScriptedOkRequired
               /\ Tracked => SeqRange(w) = OwedIn(ReplacedScope) \cup undropped
          ELSE /\ ScriptedOkAllowed /\ op.gdropped = {}
               /\ w = op.got
               /\ OwedIn(ReplacedScope) = {}
       /\ Tracked => AllLive(w)       \* (without destructors nothing is observable: what the place keeps is simply alive)
       /\ pool' = [pool EXCEPT ![op.recv[1]].items = w]
       /\ owed' = Restrict(owed, DOMAIN owed \ SeqRange(w))
       /\ life' = IF Tracked THEN life
                  ELSE [e \in DOMAIN life |-> IF e \in SeqRange(op.got) \ SeqRange(w) THEN "dropped"
                                              ELSE IF e \in SeqRange(w) THEN "live" ELSE life[e]]
    /\ op' = NoOp
    /\ UNCHANGED <<loose, heap, cfg>>

RetDe(r) ==
    /\ IsDe /\ op.name = "deserialize" /\ op.phase = "idle"
    /\ r.vals = <<>> /\ r.obs = <<>>
    /\ IF r.err
       THEN /\ r.outs = <<>>
            /\ (~Tracked \/ op.gdropped = SeqRange(op.got))       \* already-read elements dropped exactly once
            /\ IF op.okind = "opaque" THEN ~OpaqueOk ELSE ~ScriptedOkRequired
            /\ life' = IF Tracked THEN life
                       ELSE [e \in DOMAIN life |-> IF e \in SeqRange(op.got) THEN "dropped" ELSE life[e]]
            /\ UNCHANGED pool
       ELSE /\ IF op.okind = "opaque" THEN OpaqueOk /\ Len(op.got) = op.n ELSE ScriptedOkAllowed
            /\ op.gdropped = {}
            /\ OutsMatch(r.outs, <<MkVal("arr", op.got, 0)>>)     \* never a partially filled array
            /\ AllLive(op.got)
            /\ pool' = PoolWith(pool, r.outs)
            /\ UNCHANGED life
    /\ op' = NoOp
    /\ UNCHANGED <<loose, owed, heap, cfg>>
=============================================================================
