"""Program properties: C12 (compile-time accept/reject corpus), C18 (const evaluation), C20 (macros).
The tables come from the TLA+ specification (TLC emits them); the Rust compiler / const evaluator
decides each row; for C18 and C20 the generated program's records are validated by TLC."""
import glob
import hashlib
import json
import os
import re
import sys
from concurrent.futures import ThreadPoolExecutor

import vlib
from vlib import Check, ToolError, log
from props import check, dedupe
import props2

sys.path.insert(0, os.path.join(vlib.ROOT, "gen"))
import gen_c12  # noqa: E402


def rlibs():
    """The generic_array rlib as built from /repo's working tree by the aux harness build."""
    props2.build_aux()
    deps = os.path.join(props2.AUX, "target-alt" if vlib.ALT else "target", "debug", "deps")
    c = sorted(glob.glob(os.path.join(deps, "libgeneric_array-*.rlib")), key=os.path.getmtime)
    if not c:
        raise ToolError("no generic_array rlib under " + deps)
    return deps, c[-1]


def rustc(src_path, out_dir, deps, rlib, emit="metadata", extra=()):
    cmd = ["rustc", "--edition", "2021", "--crate-type", "bin", "--emit=" + emit, "--out-dir", out_dir, "-L", "dependency=" + deps,
           "--extern", "generic_array=" + rlib, "--cap-lints", "allow"] + list(extra) + [src_path]
    p = vlib.sh(cmd, timeout=300)
    return p.returncode, p.stderr


NAME_RESOLUTION = {"E0405", "E0407", "E0408", "E0412", "E0416", "E0422", "E0423", "E0424", "E0425", "E0426", "E0428", "E0429", "E0430", "E0431", "E0432", "E0433", "E0434", "E0435", "E0437", "E0438"}
_CODE = re.compile(r"error\[(E\d{4})\]")


@check("C12")
def c12(tier, seed):
    c = Check("C12", tier, seed, level="exploration")
    deps, rlib = rlibs()
    r = c.mc("MC_Typing", "MC_Typing_q" if tier == "quick" else "MC_Typing_t")
    rows = dedupe(r["scenarios"])
    pdir = os.path.join(c.dir, "programs")
    os.makedirs(pdir, exist_ok=True)

    def one(i_row):
        i, d = i_row
        src = gen_c12.program(d)
        path = os.path.join(pdir, "p%05d.rs" % i)
        open(path, "w").write(src)
        odir = os.path.join(pdir, "o%05d" % i)
        os.makedirs(odir, exist_ok=True)
        rc, err = rustc(path, odir, deps, rlib)
        for f in glob.glob(os.path.join(odir, "*")):
            os.remove(f)
        os.rmdir(odir)
        return d, path, rc, err

    with ThreadPoolExecutor(max_workers=14) as ex:
        results = list(ex.map(one, list(enumerate(rows))))
    codes_seen = {}
    for d, path, rc, err in results:
        codes = sorted(set(_CODE.findall(err)))
        compiled = rc == 0
        key = json.dumps({k: v for k, v in d.items() if k != "accept"}, sort_keys=True)
        c.distinct.add(key)
        if d["accept"] and not compiled:
            bad = "a program the specification accepts was rejected by the compiler"
        elif not d["accept"] and compiled:
            bad = "a program the specification rejects was accepted by the compiler"
        else:
            bad = None
            if not d["accept"]:
                parse_err = re.search(r"error: (expected|unexpected|unclosed|unknown start|mismatched closing|this file contains)", err) is not None
                if parse_err or (codes and all(cd in NAME_RESOLUTION for cd in codes)) or (not codes and "lifetime may not live long enough" not in err):
                    raise ToolError("template broken (no type/borrow error code) for row %s:\n%s" % (d, err[-1500:]))
                for cd in (codes or ["lifetime-error-without-code"]):
                    codes_seen[cd] = codes_seen.get(cd, 0) + 1
        if bad:
            scn = {"case": "program", "d": d, "program": open(path).read(), "rustc_rc": rc, "rustc_stderr": err[-3000:]}
            c._sub, c._spec = "rustc", "-"
            c.report(scn, {"line": 0, "event": bad, "reason": bad, "trace": []})
    c.cov["evaluations"] = len(results)
    c.cov["programs"] = len(results)
    c.cov["rule"] = ("one program per row of the tables of spec/Typing.tla as enumerated by TLC (length relations for lengths 0..%d, auto-trait table, borrow table with accepted twins); "
                     "a row is non-trivial and distinct by its (table, operation/API, lengths/trait/misuse) key; accept rows must compile, reject rows must fail with a type/trait/borrow error" % (2 if tier == "quick" else 4))
    c.cov["reject_rows"] = sum(1 for d, _, _, _ in results if not d["accept"])
    c.cov["accept_rows"] = sum(1 for d, _, _, _ in results if d["accept"])
    c.cov["error_codes_seen"] = codes_seen
    c.cov["samples"] = [{"row": results[i][0], "program": open(results[i][1]).read()} for i in (0, len(results) // 2, len(results) - 1)]
    c.assumptions += ["the Rust compiler (type checker, trait solver, borrow checker) is the decider; TLA+ supplies the systematic table and the expected verdict",
                      "a reject row passes on any type / trait / borrow error; parse or name-resolution errors are tool errors"]
    return c.finish()


# ---------------------------------------------------------------------------------------------
# generated programs whose output records TLC validates (C18, C20)
# ---------------------------------------------------------------------------------------------
import gen_prog  # noqa: E402


def run_generated(c, src, name, deps, rlib, must_compile=True):
    """Compiles a generated program (full codegen: the const evaluator and the run-time code both run),
    executes it and wraps its records into one case."""
    pdir = os.path.join(c.dir, name)
    os.makedirs(pdir, exist_ok=True)
    path = os.path.join(pdir, name + ".rs")
    open(path, "w").write(src)
    rc, err = rustc(path, pdir, deps, rlib, emit="link", extra=["-C", "debuginfo=0", "-C", "opt-level=0"])
    if rc != 0:
        return None, err
    exe = os.path.join(pdir, name)
    p = vlib.sh([exe], timeout=600)
    lines = [l for l in p.stdout.splitlines() if l.startswith("{")]
    trace = os.path.join(c.dir, name + ".trace.ndjson")
    with open(trace, "w") as f:
        f.write(json.dumps({"ev": "case_start", "case": name, "prop": c.prop, "ety": "plain", "rec": False}, separators=(",", ":")) + "\n")
        for l in lines:
            f.write(l + "\n")
        if p.returncode != 0:
            f.write(json.dumps({"ev": "exit", "rc": p.returncode, "class": vlib.classify_death(p.returncode, p.stderr), "stderr": p.stderr[-300:]}) + "\n")
        f.write('{"ev":"case_end"}\n')
    os.remove(exe)
    return trace, ""


def validate_records(c, trace, name):
    cases = vlib.split_cases(trace)
    parts = []
    for cname, lines in cases:
        body = [l for l in lines[1:] if not l.startswith('{"ev":"case_end"')]
        for i in range(0, max(len(body), 1), 1500):
            parts.append(("%s/%d" % (cname, i // 1500), [lines[0]] + body[i:i + 1500] + ['{"ev":"case_end"}\n']))
    acc, rej, st = vlib.validate_cases(parts, c.prop + "-" + name, chunk_events=2000)
    nev = sum(len(x[1]) - 2 for x in parts)
    log("[conform] %s: %d records, %d rejected" % (name, nev, len(rej)))
    accepted = set(acc)
    c.cov["traces_validated_against_impl"] += sum(len(x[1]) - 2 for x in parts if x[0] in accepted)   # records judged and accepted
    c.cov["evaluations"] += nev
    c.cov["trace_events"] += nev
    for x in parts:
        for l in x[1][1:-1]:
            c.distinct.add(l[:160])
    if parts and len(c.cov["samples"]) < 6:
        c.cov["samples"].append({"records": [json.loads(l) for l in parts[0][1][1:4]]})
    for r in rej:
        ev = json.loads(r["event"]) if r["event"].startswith("{") else {}
        scn = {"case": r["case"], "d": {k: ev.get(k) for k in ("ev", "api", "ety", "n", "l", "m", "form", "k") if k in ev}}
        r2 = dict(r)
        r2["trace"] = [r["trace"][0]] + r["trace"][max(1, r["line"] - 2):r["line"] + 1]
        c._sub, c._spec = "generated-program", "GATrace"
        c.report(scn, r2)


CONST_APIS = ["try_from_slice", "from_slice", "try_from_mut_slice", "from_mut_slice", "chunks_from_slice", "chunks_from_slice_mut", "slice_from_chunks", "slice_from_chunks_mut",
              "from_chunks", "from_chunks_mut", "into_chunks", "into_chunks_mut"]


@check("C18")
def c18(tier, seed):
    c = Check("C18", tier, seed, level="exploration")
    deps, rlib = rlibs()
    r = c.mc("MC_Views", "MC_Views")
    rows = dedupe([d for d in r["scenarios"] if d["api"] in CONST_APIS])
    ns = [0, 1, 2, 3] if tier == "quick" else [0, 1, 2, 3, 4, 7, 8]
    rows = [d for d in rows if d["n"] in ns and (d["api"] not in ("try_from_slice", "from_slice", "try_from_mut_slice", "from_mut_slice", "chunks_from_slice", "chunks_from_slice_mut") or d["l"] <= 3 * d["n"] + 2)]
    # slice lengths 0..=3N+2 for the reinterpretations (the model's table has only the boundary lengths)
    for n in ns:
        for l in range(0, 3 * n + 3):
            for api in ("try_from_slice", "try_from_mut_slice"):
                rows.append({"api": api, "n": n, "l": l, "k": 0, "m": 0})
        for api in ("array_roundtrip", "uninit_assume_init", "const_transmute"):
            rows.append({"api": api, "n": n, "l": n, "k": 0, "m": 0})
    if tier != "quick":
        for n in (16, 97):
            for l in (0, n - 1, n, n + 1, 3 * n + 2):
                for api in ("try_from_slice", "try_from_mut_slice", "chunks_from_slice", "chunks_from_slice_mut"):
                    rows.append({"api": api, "n": n, "l": l, "k": 0, "m": 0})
            rows.append({"api": "array_roundtrip", "n": n, "l": n, "k": 0, "m": 0})
    rows = dedupe(rows)
    etys = ["u8", "u32", "u8u16", "unit"]
    src, nrec = gen_prog.c18_program(rows, etys)
    trace, err = run_generated(c, src, "c18_consts", deps, rlib)
    c.cov["programs"] = 1
    if trace is None:
        # the const evaluator (or the type checker) rejected a const item of the family: that is the violation
        bad = "the generated family of const items did not compile (const evaluation rejected a const fn of the API)"
        c._sub, c._spec = "rustc", "-"
        c.report({"case": "c18_consts", "d": {"program": "c18_consts", "items": nrec}, "rustc_stderr": err[-4000:]}, {"line": 0, "event": bad, "reason": bad, "trace": []})
    else:
        validate_records(c, trace, "c18_consts")
    # rows whose const evaluation must fail (a panic inside a const item is a compile error)
    for kind in ("from_slice_wrong_len", "chunks_n0_nonempty", "from_mut_slice_wrong_len"):
        pdir = os.path.join(c.dir, "fail_" + kind)
        os.makedirs(pdir, exist_ok=True)
        path = os.path.join(pdir, kind + ".rs")
        open(path, "w").write(gen_prog.c18_fail_program(kind))
        rc, e2 = rustc(path, pdir, deps, rlib, emit="metadata")
        c.cov["programs"] += 1
        c.cov["evaluations"] += 1
        c.distinct.add("fail:" + kind)
        if rc == 0:
            bad = "a const item that must panic during const evaluation was accepted"
            c.report({"case": kind, "d": {"program": kind}}, {"line": 0, "event": bad, "reason": bad, "trace": []})
    c.cov["rule"] = "one const item + one run-time twin per (const fn, N, slice length / chunk count, element type) row; distinct by record; non-trivial: every row evaluates a const fn of the crate in the const evaluator"
    c.cov["bounds"] = {"N": ns, "slice lengths": "0..=3N+2", "element types": etys, "const items": nrec}
    c.assumptions.append("the compiler's const evaluator is the decider for UB-freedom; TLA+ (Macros!ConstExp over Views!ViewExp) supplies the expected summaries")
    return c.finish()


@check("C20")
def c20(tier, seed):
    c = Check("C20", tier, seed, level="model_checking")
    deps, rlib = rlibs()
    r = c.mc("MC_Macros", "MC_Macros")
    ks = list(range(0, 65)) + [100, 128, 255, 256] if tier != "quick" else list(range(0, 18)) + [31, 32, 33, 64, 100, 256]
    reps = [0, 1, 2, 3, 4, 7, 8, 16, 33, 97, 1024] if tier != "quick" else [0, 1, 2, 3, 8, 97]
    src = gen_prog.c20_program(ks, reps)
    trace, err = run_generated(c, src, "c20_macros", deps, rlib)
    if trace is None:
        bad = "a macro invocation of the generated family did not compile"
        c._sub, c._spec = "rustc", "-"
        c.report({"case": "c20_macros", "d": {"program": "c20_macros"}, "rustc_stderr": err[-4000:]}, {"line": 0, "event": bad, "reason": bad, "trace": []})
    else:
        validate_records(c, trace, "c20_macros")
    c.cov["bounds"] = {"element counts": "0..=64, 100, 128, 255, 256" if tier != "quick" else "0..=17, 31..33, 64, 100, 256", "repeat lengths": reps}
    return c.finish()
