"""Per-property registration data for MANIFEST.json (gen/gen_manifest.py)."""
TECH = "explicit TLA+ specification checked with TLC, bound to the code by trace validation of real-code traces and replay of TLC-generated scenarios"

REG = {
 "C06": dict(category="model_checking", design_ref="5 (C06)",
    text="TLC explores the iterator mechanism model (spec/mech/MechIter.tla) exhaustively for N<=5 (quick) / N<=8 (thorough): every reachable (front, back), every operation, every argument 0..len+2, checking refinement of the deque contract (Ops!Sem) and slot safety; every explored transition is emitted as a scenario, executed on the real GenericArrayIter, and the recorded trace (results, as_slice contents, len, size_hint, Debug, every destructor run) is validated line by line against the contract specification by TLC; seeded long random histories on N in {12,16,33,97,1024} are validated the same way.",
    note="Small-scope exhaustive + seeded sampling beyond it; trusts TLC, the harness's drop-logging element type and its log; the iterator's state is fully observable through as_slice/len.",
    technique=TECH),
}
