"""Extracts from /repo/src/lib.rs what the layout model needs: field lists and repr attributes of the
two recursive storage structs, the base type of the recursion and the wrapper's repr."""
import os
import re

import vlib


def parse_layout_src(repo="/repo"):
    src = open(os.path.join(repo, "src", "lib.rs")).read()
    unknown = []

    def struct(name):
        m = re.search(r"((?:\s*#\[[^\]]*\]\s*|\s*///[^\n]*\n)*)\s*pub struct %s<[^>]*>\s*\{([^}]*)\}" % name, src)
        if not m:
            raise vlib.ToolError("cannot find struct %s in src/lib.rs" % name)
        attrs, body = m.group(1), m.group(2)
        fields = []
        for f in body.split(","):
            f = re.sub(r"//[^\n]*", "", f)
            f = re.sub(r"#\[[^\]]*\]", "", f).strip()
            if not f:
                continue
            ty = f.split(":", 1)[1].strip()
            if ty == "U":
                fields.append("U")
            elif ty == "T":
                fields.append("T")
            elif ty.startswith("PhantomData"):
                fields.append("PhantomData")
            else:
                # a field the model does not know (e.g. another zero-sized marker): modelled like PhantomData;
                # the observed layouts decide, and the evidence records the assumption
                fields.append("PhantomData")
                unknown.append("%s.%s" % (name, ty))
        reprs = [x.strip() for m_ in re.finditer(r"#\[repr\(([^\]]*)\)\]", attrs) for x in re.split(r",(?![^()]*\))", m_.group(1))]
        pack = algn = 0
        for x in reprs:
            mm = re.fullmatch(r"packed(?:\((\d+)\))?", x)
            if mm:
                pack = int(mm.group(1) or 1)
            mm = re.fullmatch(r"align\((\d+)\)", x)
            if mm:
                algn = int(mm.group(1))
        mods[name] = {"pack": pack, "align": algn, "repr": reprs}
        return fields, "C" in reprs

    mods = {}
    even, even_c = struct("GenericArrayImplEven")
    odd, odd_c = struct("GenericArrayImplOdd")
    m = re.search(r"unsafe impl ArrayLength for UTerm \{.*?type ArrayType<T> = (.+?);\s*\n", src, re.S)
    base = m.group(1).strip() if m else "?"
    m = re.search(r"((?:\s*#\[[^\]]*\]\s*|\s*///[^\n]*\n)*)\s*pub struct GenericArray<T, N: ArrayLength>", src)
    transparent = bool(m and "repr(transparent)" in m.group(1))
    return {"mods": mods, "unknown_fields": unknown, "even": even, "odd": odd, "even_repr_c": even_c, "odd_repr_c": odd_c, "base": base, "transparent": transparent}


def write_layout_src(info, path):
    def seq(xs):
        return "<<" + ", ".join('"%s"' % x for x in xs) + ">>"
    b = lambda x: "TRUE" if x else "FALSE"
    os.makedirs(os.path.dirname(path), exist_ok=True)
    tmp = "%s.%d.tmp" % (path, os.getpid())
    open(tmp, "w").write("""----------------------------- MODULE LayoutSrc -----------------------------
\\* generated from /repo/src/lib.rs by lib/srcparse.py
EvenFields == %s
OddFields == %s
EvenReprC == %s
OddReprC == %s
BaseIsZeroLenArray == %s
WrapperTransparent == %s
\\* repr modifiers of the two node structs: packed(k) (0: none) and align(k) (0: none)
EvenPack == %d
OddPack == %d
EvenAlign == %d
OddAlign == %d
=============================================================================
""" % (seq(info["even"]), seq(info["odd"]), b(info["even_repr_c"]), b(info["odd_repr_c"]), b(info["base"].replace(" ", "") == "[T;0]"), b(info["transparent"]),
       info["mods"]["GenericArrayImplEven"]["pack"], info["mods"]["GenericArrayImplOdd"]["pack"], info["mods"]["GenericArrayImplEven"]["align"], info["mods"]["GenericArrayImplOdd"]["align"]))
    os.replace(tmp, path)
