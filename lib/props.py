"""Per-property checks: which models are explored, which scenarios they emit, how descriptors
become operation scripts for the harness.  Verdicts come only from TLC (vlib.Check.conform)."""
import json
import os
import random

import vlib
from vlib import Check, ToolError, log

CHECKS = {}


def check(pid):
    def deco(f):
        CHECKS[pid] = f
        return f
    return deco


def setup():
    vlib.build_harness()
    # parse every specification module once
    import glob
    for f in sorted(glob.glob(os.path.join(vlib.SPEC, "mc", "*.tla")) + glob.glob(os.path.join(vlib.SPEC, "trace", "*.tla"))):
        p = vlib.sh(["tla-sany", f], env={"JAVA_TOOL_OPTIONS": "-DTLA-Library=" + vlib.TLA_LIB}, cwd=os.path.dirname(f), timeout=120)
        if p.returncode != 0 or "*** Errors" in p.stdout or "Fatal" in p.stdout:
            raise ToolError("SANY failed on %s:\n%s" % (f, p.stdout[-2000:]))
    log("[setup] ok")
    return 0


def replay(pid, path):
    """Re-executes the scenario of a violation file on the current tree and re-validates it."""
    v = json.load(open(path))
    c = Check(pid, "quick", 0)
    c.dir = os.path.join(vlib.WORK, pid + "-replay")
    os.makedirs(c.dir, exist_ok=True)
    binary = vlib.build_harness()
    scn = v["scenario"]
    scn["case"] = "replay"
    c.conform(binary, [scn], "replay", sub=v.get("sub", "script"), spec=v.get("spec", "GATrace"))
    for f, _ in c.known:
        print("KNOWN-FINDING: property=%s %s" % (pid, f["what"]))
    for x in c.violations:
        print("VIOLATION property=%s replay=%s" % (pid, x))
        d = json.load(open(x))
        log("rejected at line %s: %s (%s)" % (d["rejected_at_line"], d["event"], d["reason"]))
    return 1 if c.violations else 0


def dedupe(scns, key=lambda d: json.dumps(d, sort_keys=True)):
    seen, out = set(), []
    for s in scns:
        k = key(s)
        if k not in seen:
            seen.add(k)
            out.append(s)
    return out


# ---------------------------------------------------------------------------------------------
# iterator scenarios: descriptor {n,f,b,op,arg,pan} -> script
# ---------------------------------------------------------------------------------------------
def iter_script(d, prop, followups=True):
    n, f, b, op, arg, pan = d["n"], d["f"], d["b"], d["op"], d.get("arg", 0), d.get("pan", 0)
    steps = [{"op": "mk", "n": n}, {"op": "into_iter", "recv": [1]}]
    steps += [{"op": "next", "recv": [2]} for _ in range(f)]
    steps += [{"op": "next_back", "recv": [2]} for _ in range(n - b)]
    if op == "drop":
        steps.append({"op": "release", "h": 2})
    elif op in ("nth", "nth_back"):
        steps.append({"op": op, "recv": [2], "arg": arg})
    elif op == "as_mut_swap":
        steps.append({"op": "mk_elem"})
        steps.append({"op": op, "recv": [2], "arg": arg, "elems": [n + 1]})
    else:
        st = {"op": op, "recv": [2]}
        if "panic_at" in d:
            st["panic_at"] = d["panic_at"]
        steps.append(st)
    if followups and op not in ("drop", "count", "last", "iter_fold", "iter_rfold"):
        steps += [{"op": "len", "recv": [2]}, {"op": "next", "recv": [2]}, {"op": "next_back", "recv": [2]}, {"op": "next", "recv": [2]}]
    s = {"case": "iter", "prop": prop, "ety": d.get("ety", "tk"), "steps": steps, "d": d}
    if pan:
        s["fuse_drop"] = [pan]
    if d.get("cpan"):
        s["fuse_clone"] = [d["cpan"]]
    return s


def random_iter_scripts(rng, count, lens, steps_n):
    out = []
    for _ in range(count):
        n = rng.choice(lens)
        steps = [{"op": "mk", "n": n}, {"op": "into_iter", "recv": [1]}]
        alive = [2]
        nexth = 3
        nid = n + 1
        for _ in range(steps_n):
            h = rng.choice(alive)
            r = rng.random()
            if r < 0.25:
                steps.append({"op": "next", "recv": [h]})
            elif r < 0.5:
                steps.append({"op": "next_back", "recv": [h]})
            elif r < 0.62:
                steps.append({"op": "nth", "recv": [h], "arg": rng.choice([0, 1, 2, 3, 5, n // 3, n])})
            elif r < 0.74:
                steps.append({"op": "nth_back", "recv": [h], "arg": rng.choice([0, 1, 2, 3, 5, n // 3, n])})
            elif r < 0.80:
                steps.append({"op": rng.choice(["len", "size_hint", "as_slice", "debug"]), "recv": [h]})
            elif r < 0.84 and len(alive) < 3:
                steps.append({"op": "iter_clone", "recv": [h]})
                alive.append(nexth)
                nexth += 1
                nid += n  # upper bound; ids are not predicted by scripts
            else:
                steps.append({"op": rng.choice(["len", "next"]), "recv": [h]})
        # finish each iterator differently
        for h in alive:
            fin = rng.choice(["count", "last", "iter_fold", "iter_rfold", "release"])
            if fin == "release":
                steps.append({"op": "release", "h": h})
            else:
                steps.append({"op": fin, "recv": [h]})
        out.append({"case": "iter-rnd", "ety": "tk", "steps": steps, "d": {"kind": "random", "n": n, "steps": len(steps)}})
    return out


@check("C06")
def c06(tier, seed):
    c = Check("C06", tier, seed)
    binary = vlib.build_harness()
    r = c.mc("MC_Iter", "MC_Iter_q" if tier == "quick" else "MC_Iter_t")
    descs = dedupe([d for d in r["scenarios"] if d["pan"] == 0])
    # as_mut_slice is not a mechanism step of its own (it is as_slice with &mut): exercise it on
    # every reachable window position
    extra = []
    for d in descs:
        if d["op"] == "as_slice":
            for i in range(d["b"] - d["f"]):
                extra.append(dict(d, op="as_mut_swap", arg=i))
    scns = [iter_script(d, "C06") for d in descs + extra]
    c.cov["exhaustive"] = True
    c.cov["bounds"] = {"N": "0..%d" % (5 if tier == "quick" else 8), "args": "0..len+2", "positions": "every reachable (front, back)"}
    c.conform(binary, scns, "transitions")
    rng = random.Random(seed)
    lens = [12, 16, 33, 97] if tier == "quick" else [12, 16, 33, 97, 1024]
    c.conform(binary, random_iter_scripts(rng, 12 if tier == "quick" else 120, lens, 40 if tier == "quick" else 200), "random")
    c.assumptions += ["iterator state is fully observable through as_slice/len, so covering every transition from every reachable (front, back) covers all histories up to the bound",
                      "harness elements (Tk) report clones and destructor runs faithfully"]
    return c.finish()
