"""Per-property checks: which models are explored, which scenarios they emit, how descriptors
become operation scripts for the harness.  Verdicts come only from TLC (vlib.Check.conform)."""
import json
import os
import random

import vlib
from vlib import Check, ToolError, log

CHECKS = {}


def check(pid):
    def deco(f):
        CHECKS[pid] = f
        return f
    return deco


def setup():
    vlib.build_harness()
    import props2
    props2.build_aux()
    props2.build_aux(features=("fasterhex",), target="target-fh")
    # parse every specification module once
    import glob
    for f in sorted(glob.glob(os.path.join(vlib.SPEC, "mc", "*.tla")) + glob.glob(os.path.join(vlib.SPEC, "trace", "*.tla"))):
        p = vlib.sh(["tla-sany", f], env={"JAVA_TOOL_OPTIONS": "-DTLA-Library=" + vlib.TLA_LIB}, cwd=os.path.dirname(f), timeout=120)
        if p.returncode != 0 or "*** Errors" in p.stdout or "Fatal" in p.stdout:
            raise ToolError("SANY failed on %s:\n%s" % (f, p.stdout[-2000:]))
    log("[setup] ok")
    return 0


def replay(pid, path):
    """Re-executes the scenario of a violation file on the current tree and re-validates it."""
    v = json.load(open(path))
    sub = v.get("sub", "script")
    if sub not in ("script", "views", "big"):
        # records produced by the table drivers, by generated programs, by the compiler or by a model over the source:
        # the unit of replay is the check itself (same rows, same seed); it reports the violation again if it is still there
        log("[replay] %s records are replayed by re-running the check (%s quick)" % (sub, pid))
        return CHECKS[pid]("quick", int(os.environ.get("VERIF_SEED", "1") or 1))
    c = Check(pid, "quick", 0)
    c.dir = os.path.join(vlib.WORK, pid + "-replay")
    os.makedirs(c.dir, exist_ok=True)
    binary = vlib.build_harness()
    scn = v["scenario"]
    scn["case"] = "replay"
    c.conform(binary, [scn], "replay", sub=v.get("sub", "script"), spec=v.get("spec", "GATrace"))
    for f, _ in c.known:
        print("KNOWN-FINDING: property=%s %s" % (pid, f["what"]))
    for x in c.violations:
        print("VIOLATION property=%s replay=%s" % (pid, x))
        d = json.load(open(x))
        log("rejected at line %s: %s (%s)" % (d["rejected_at_line"], d["event"], d["reason"]))
    return 1 if c.violations else 0


def dedupe(scns, key=lambda d: json.dumps(d, sort_keys=True)):
    seen, out = set(), []
    for s in scns:
        k = key(s)
        if k not in seen:
            seen.add(k)
            out.append(s)
    return out


# ---------------------------------------------------------------------------------------------
# iterator scenarios: descriptor {n,f,b,op,arg,pan} -> script
# ---------------------------------------------------------------------------------------------
SEARCH_OPS = ("iter_position", "iter_rposition", "iter_any", "iter_all", "iter_find", "iter_rfind", "iter_find_map")


def iter_search_scripts(lens, prop, faults=False):
    """The searching consumers (provided methods of Iterator / DoubleEndedIterator that an implementation may
    override) and for_each, from every (front, back) position: the predicate ends the search at every call index or
    never; with `faults`, the predicate / closure panics at every call index."""
    out = []
    for n in lens:
        for f in range(0, n + 1):
            for b in range(f, n + 1):
                ln = b - f
                for op in SEARCH_OPS:
                    for stop in range(-1, ln):
                        calls = ln if stop < 0 else stop + 1
                        if not faults:
                            out.append(iter_script({"n": n, "f": f, "b": b, "op": op, "arg": stop}, prop))
                        else:
                            for k in range(calls):
                                out.append(iter_script({"n": n, "f": f, "b": b, "op": op, "arg": stop, "panic_at": k}, prop))
                if not faults:
                    out.append(iter_script({"n": n, "f": f, "b": b, "op": "iter_for_each"}, prop, followups=False))
                else:
                    for k in range(ln):
                        out.append(iter_script({"n": n, "f": f, "b": b, "op": "iter_for_each", "panic_at": k}, prop, followups=False))
    return out


def iter_script(d, prop, followups=True):
    n, f, b, op, arg, pan = d["n"], d["f"], d["b"], d["op"], d.get("arg", 0), d.get("pan", 0)
    steps = [{"op": "mk", "n": n}, {"op": "into_iter", "recv": [1]}]
    steps += [{"op": "next", "recv": [2]} for _ in range(f)]
    steps += [{"op": "next_back", "recv": [2]} for _ in range(n - b)]
    if op == "drop":
        steps.append({"op": "release", "h": 2})
    elif op in ("nth", "nth_back"):
        steps.append({"op": op, "recv": [2], "arg": arg})
    elif op == "as_mut_swap":
        steps.append({"op": "mk_elem"})
        steps.append({"op": op, "recv": [2], "arg": arg, "elems": [n + 1]})
    else:
        st = {"op": op, "recv": [2]}
        if "panic_at" in d:
            st["panic_at"] = d["panic_at"]
        if op in SEARCH_OPS:
            st["arg"] = arg          # the call index at which the scripted predicate ends the search (-1: never)
        steps.append(st)
        if op == "iter_clone" and not d.get("cpan") and not pan:
            # a second clone of the same iterator: Clone::clone runs on the ORIGINAL elements each time (their own
            # clone counters read 1 now), not on a copy
            steps.append({"op": "iter_clone", "recv": [2]})
    if followups and op not in ("drop", "count", "last", "iter_fold", "iter_rfold", "iter_for_each"):
        steps += [{"op": "len", "recv": [2]}, {"op": "next", "recv": [2]}, {"op": "next_back", "recv": [2]}, {"op": "next", "recv": [2]}]
    s = {"case": "iter", "prop": prop, "ety": d.get("ety", "tk"), "steps": steps, "d": d}
    if pan:
        s["fuse_drop"] = [pan]
    if d.get("cpan"):
        s["fuse_clone"] = [d["cpan"]]
    return s


def iter_clone_from_scripts(lens, prop, faults=False):
    """Clone::clone_from between two by-value iterators of the same array type, from every pair of (front, back)
    positions: the destination afterwards yields clones of exactly the source's remaining elements, the source is
    undisturbed, what the destination held is dropped once.  With `faults`: the clone of every remaining source
    element panics."""
    out = []
    for n in lens:
        for f1 in range(0, n + 1):
            for b1 in range(f1, n + 1):
                for f2 in range(0, n + 1):
                    for b2 in range(f2, n + 1):
                        steps = [{"op": "mk", "n": n}, {"op": "into_iter", "recv": [1]}]
                        steps += [{"op": "next", "recv": [2]} for _ in range(f1)] + [{"op": "next_back", "recv": [2]} for _ in range(n - b1)]
                        steps += [{"op": "mk", "n": n}, {"op": "into_iter", "recv": [3]}]
                        steps += [{"op": "next", "recv": [4]} for _ in range(f2)] + [{"op": "next_back", "recv": [4]} for _ in range(n - b2)]
                        tail = [{"op": "len", "recv": [2]}, {"op": "len", "recv": [4]}] + [{"op": "next", "recv": [2]} for _ in range(b2 - f2 + 1)] + [{"op": "next_back", "recv": [4]}, {"op": "next", "recv": [4]}]
                        d = {"op": "iter_clone_from", "n": n, "dst": [f1, b1], "src": [f2, b2]}
                        if not faults:
                            out.append({"case": "iter_clone_from", "prop": prop, "ety": "tk", "steps": steps + [{"op": "iter_clone_from", "recv": [2, 4]}] + tail, "d": d})
                        else:
                            for k in range(b2 - f2):
                                # ids: the first array holds 1..n, the second n+1..2n
                                out.append({"case": "iter_clone_from", "prop": prop, "ety": "tk", "fuse_clone": [n + f2 + 1 + k],
                                            "steps": steps + [{"op": "iter_clone_from", "recv": [2, 4]}] + tail, "d": dict(d, cpan=n + f2 + 1 + k)})
    return out


def random_iter_scripts(rng, count, lens, steps_n):
    out = []
    for _ in range(count):
        n = rng.choice(lens)
        steps = [{"op": "mk", "n": n}, {"op": "into_iter", "recv": [1]}]
        alive = [2]
        nexth = 3
        nid = n + 1
        for _ in range(steps_n):
            h = rng.choice(alive)
            r = rng.random()
            if r < 0.25:
                steps.append({"op": "next", "recv": [h]})
            elif r < 0.5:
                steps.append({"op": "next_back", "recv": [h]})
            elif r < 0.62:
                steps.append({"op": "nth", "recv": [h], "arg": rng.choice([0, 1, 2, 3, 5, n // 3, n])})
            elif r < 0.74:
                steps.append({"op": "nth_back", "recv": [h], "arg": rng.choice([0, 1, 2, 3, 5, n // 3, n])})
            elif r < 0.80:
                steps.append({"op": rng.choice(["len", "size_hint", "as_slice", "debug"]), "recv": [h]})
            elif r < 0.84 and len(alive) < 3:
                steps.append({"op": "iter_clone", "recv": [h]})
                alive.append(nexth)
                nexth += 1
                nid += n  # upper bound; ids are not predicted by scripts
            else:
                steps.append({"op": rng.choice(["len", "next"]), "recv": [h]})
        # finish each iterator differently
        for h in alive:
            fin = rng.choice(["count", "last", "iter_fold", "iter_rfold", "release"])
            if fin == "release":
                steps.append({"op": "release", "h": h})
            else:
                steps.append({"op": fin, "recv": [h]})
        out.append({"case": "iter-rnd", "ety": "tk", "steps": steps, "d": {"kind": "random", "n": n, "steps": len(steps)}})
    return out


def repo_iter_test_scripts():
    def it(n, ops, name):
        steps = [{"op": "mk", "n": n}, {"op": "into_iter", "recv": [1]}]
        nexth = 3
        for o in ops:
            if isinstance(o, tuple):
                steps.append({"op": o[0], "recv": [o[2] if len(o) > 2 else 2], "arg": o[1]})
            elif o == "iter_clone":
                steps.append({"op": o, "recv": [2]})
                nexth += 1
            else:
                steps.append({"op": o, "recv": [2]})
        return {"case": name, "ety": "tk", "steps": steps, "d": {"kind": "repo-test-replica", "name": name}}
    return [
        it(4, ["as_slice", "next", "as_slice", "next_back", "next", "as_slice", "next", "as_slice", "next"], "test_into_iter_as_slice"),
        it(4, ["iter_clone", "next", "next_back", "iter_clone", "next", "next"], "test_into_iter_clone"),
        it(5, [("nth", 0), ("nth", 2), ("nth", 0), ("nth", 5)], "test_into_iter_nth"),
        it(5, [("nth_back", 0), ("nth_back", 2), ("nth_back", 0), ("nth_back", 5)], "test_into_iter_nth_back"),
        it(5, ["next", "next_back", "count"], "test_into_iter_count"),
        it(5, ["next", "next_back", "last"], "test_into_iter_last"),
        it(5, ["next", "iter_fold"], "test_into_iter_fold"),
        it(5, ["next_back", "iter_rfold"], "test_into_iter_rfold"),
        it(5, ["next", "next_back", "debug", "len", "size_hint"], "test_into_iter_debug"),
        it(5, ["next", ("nth", 1), "next_back"], "test_into_iter_drops"),
    ]


@check("C06")
def c06(tier, seed):
    c = Check("C06", tier, seed)
    binary = vlib.build_harness()
    r = c.mc("MC_Iter", "MC_Iter_q" if tier == "quick" else "MC_Iter_t")
    descs = dedupe([d for d in r["scenarios"] if d["pan"] == 0 and d.get("cpan", 0) == 0])
    # as_mut_slice is not a mechanism step of its own (it is as_slice with &mut): exercise it on
    # every reachable window position
    extra = []
    for d in descs:
        if d["op"] == "as_slice":
            # usize::MAX as skip count from every position (index + n must not overflow)
            extra.append(dict(d, op="nth", arg=2147483647))
            extra.append(dict(d, op="nth_back", arg=2147483647))
            # ... and 2^32 + j: a skip count whose low 32 bits are small
            for j in (0, 1):
                extra.append(dict(d, op="nth", arg=2000000000 + j))
                extra.append(dict(d, op="nth_back", arg=2000000000 + j))
            for i in range(d["b"] - d["f"]):
                extra.append(dict(d, op="as_mut_swap", arg=i))
    scns = [iter_script(d, "C06") for d in descs + extra]
    # every transition also for an element type WITHOUT drop glue (a path selected by needs_drop must obey the same queue)
    scns += [iter_script(dict(d, ety="plain"), "C06") for d in descs + extra if d["n"] <= (3 if tier == "quick" else 5) and d["op"] != "as_mut_swap"]
    # Clone of the iterator for an element type without drop glue but with an observable Clone
    scns += [iter_script(dict(d, ety=e), "C06") for d in descs if d["op"] == "iter_clone" for e in ("plain", "plz")]
    # searching consumers and for_each from every position
    sr = iter_search_scripts([0, 1, 2, 3] if tier == "quick" else [0, 1, 2, 3, 4, 5], "C06")
    scns += sr + [dict(s, ety=e) for s in sr if s["d"]["n"] <= 2 for e in ("plain", "zst")]
    # Clone::clone_from between two iterators, every pair of positions
    cf = iter_clone_from_scripts([0, 1, 2, 3] if tier == "quick" else [0, 1, 2, 3, 4, 5], "C06")
    scns += cf + [dict(s, ety="plain") for s in cf if s["d"]["n"] <= 2]
    c.cov["exhaustive"] = True
    c.cov["bounds"] = {"N": "0..%d" % (5 if tier == "quick" else 8), "args": "0..len+2", "positions": "every reachable (front, back)"}
    c.conform(binary, scns, "transitions")
    rng = random.Random(seed)
    lens = [12, 16, 33, 97] if tier == "quick" else [12, 16, 33, 97, 1024]
    c.conform(binary, random_iter_scripts(rng, 12 if tier == "quick" else 120, lens, 40 if tier == "quick" else 200), "random")
    # the repository's own iterator tests (tests/iter.rs), replayed as scripts so that every step is validated
    c.conform(binary, repo_iter_test_scripts(), "repo-test-replicas")
    # arrays of zero-sized elements longer than 32 bits / than isize::MAX: the O(1) steps, lengths as deficits from N
    c.conform(binary, [{"case": "big", "prop": "C06", "d": {"op": "zstiter", "shape": s}} for s in ("2^32", "2^32+5", "2^63", "2^64-1")], "huge-zst-iterators", sub="big")
    c.assumptions += ["iterator state is fully observable through as_slice/len, so covering every transition from every reachable (front, back) covers all histories up to the bound",
                      "harness elements (Tk) report clones and destructor runs faithfully"]
    return c.finish()


# ---------------------------------------------------------------------------------------------
# C05: a panicking destructor
# ---------------------------------------------------------------------------------------------
def teardown_fault_scripts(lens):
    """Operations that drop elements internally, outside the iterator: array / box / vec-converted
    teardown, the failure paths of try_from_iter and TryFrom<Vec>, remove out of bounds, each with
    every choice of the single panicking element."""
    out = []
    for n in lens:
        for pan in range(1, n + 1):
            for kind in ("arr", "box"):
                out.append({"case": "teardown", "ety": "tk", "fuse_drop": [pan], "steps": [{"op": "mk", "n": n, "kind": kind}, {"op": "release", "h": 1}],
                            "d": {"op": "release", "kind": kind, "n": n, "pan": pan}})
            # (remove out of bounds + panicking destructor would be a second panic while unwinding:
            #  Rust aborts the process by design, outside the property)
            # source yields n items, target wants n+1 (short) or n-1 (long): the pulled items are torn down
            for tgt, nm in ((n + 1, "short"), (n - 1, "long")):
                if tgt < 0:
                    continue
                for op in ("try_from_iter", "try_boxed_from_iter"):
                    out.append({"case": "teardown", "ety": "tk", "fuse_drop": [pan],
                                "steps": [{"op": op, "n": tgt, "okind": "box" if "boxed" in op else "arr", "script": [1] * n, "hint": [0, -1]}],
                                "d": {"op": op, "path": nm, "n": tgt, "items": n, "pan": pan}})
            for op, kind in (("arr_try_from_vec", "vec"), ("try_from_vec", "vec"), ("try_from_boxed_slice", "bslice"), ("arr_try_from_bslice", "bslice")):
                out.append({"case": "teardown", "ety": "tk", "fuse_drop": [pan], "steps": [{"op": "mk", "n": n, "kind": kind}, {"op": op, "recv": [1], "arg": n + 1}],
                            "d": {"op": op, "path": "wrong_len", "n": n, "pan": pan}})
    return out


@check("C05")
def c05(tier, seed):
    c = Check("C05", tier, seed)
    binary = vlib.build_harness()
    r = c.mc("MC_Iter", "MC_Iter_fq" if tier == "quick" else "MC_Iter_ft")
    descs = dedupe([d for d in r["scenarios"] if d["pan"] > 0 and d["f"] < d["pan"] <= d["b"] and d.get("cpan", 0) == 0])
    scns = [iter_script(d, "C05") for d in descs]
    c.cov["exhaustive"] = True
    c.cov["bounds"] = {"N": "0..%d" % (4 if tier == "quick" else 6), "fault": "every choice of the single element whose destructor panics, every (front, back), every skip count 0..len+2"}
    c.conform(binary, scns, "iter-faults")
    c.conform(binary, teardown_fault_scripts([1, 2, 3] if tier == "quick" else [1, 2, 3, 4, 5, 8]), "teardown-faults")
    # the consumers that drop elements themselves (find / rfind drop what the predicate rejects; for_each / position / any
    # hand elements to the closure, which drops them): one destructor panics, from every position
    cons = []
    for n in ([1, 2, 3] if tier == "quick" else [1, 2, 3, 4]):
        for f in range(0, n + 1):
            for b in range(f + 1, n + 1):
                for pan in range(f + 1, b + 1):
                    for op in ("iter_find", "iter_rfind", "iter_position", "iter_any", "iter_for_each"):
                        cons.append(iter_script({"n": n, "f": f, "b": b, "op": op, "arg": -1, "pan": pan}, "C05", followups=op != "iter_for_each"))
    c.conform(binary, cons, "consumer-faults")
    # model-to-model: the iterator mechanism model's transitions are accepted by the contract; with the
    # as-found nth / nth_back statement order some are rejected
    mech_conformance(c, "MC_Iter", "TR_Iter", False)
    mech_conformance(c, "MC_Iter", "TR_Iter_nth", True)
    if tier != "quick":
        c.neg("MC_Iter", "NEG_Iter_nth")
    c.assumptions += ["single fault: one destructor panics once (a second panic while unwinding aborts the process by Rust's rules and is outside the property)",
                      "after a destructor panic the contract is lenient: leaks are allowed, a second drop or an observation of a dropped element never is"]
    return c.finish()


# ---------------------------------------------------------------------------------------------
# functional operations: descriptor {op, form, n, panic_at} -> scripts over every receiver form
# ---------------------------------------------------------------------------------------------
def _mk(kind, n):
    return {"op": "mk", "n": n, "kind": kind}


def func_scripts(d, prop):
    """Expands one mechanism-model scenario (op, by-value flags, n, crash index) into the concrete
    receiver/argument forms of the public API: owned / & / &mut / Box."""
    op, form, n, pa = d["op"], d["form"], d["n"], d.get("panic_at", -1)
    out = []

    def add(steps, **extra):
        dd = dict(d)
        dd.update(extra)
        out.append({"case": op, "prop": prop, "ety": "tk", "steps": steps, "d": dd})

    refs = ["ref", "mut"]
    if n >= 1024:
        # very long arrays: one representative form per operation (TLC handles 1024-element sequences slowly)
        if op == "generate":
            add([{"op": "generate", "n": n, "okind": "box", "panic_at": pa}], okind="box")
        elif op in ("map", "fold") and form[0]:
            add([_mk("arr", n), {"op": op, "recv": [1], "form": ["own"], "panic_at": pa}], recv="own")
        elif op == "zip" and form[0] and form[1]:
            add([_mk("arr", n), _mk("arr", n), {"op": "zip", "recv": [1, 2], "form": ["own", "own"], "panic_at": pa}], recv="own,own")
        elif op == "zip" and form[0] and not form[1]:
            add([_mk("arr", n), _mk("arr", n), {"op": "zip", "recv": [1, 2], "form": ["own", "ref"], "panic_at": pa}], recv="own,ref")
        return out
    if op == "generate":
        for okind in ("arr", "box", "arr_via_ref", "arr_via_mut"):
            add([{"op": "generate", "n": n, "okind": okind, "panic_at": pa}], okind=okind)
        # sources without drop glue, tracked results: map / zip build like generate does
        for f in ("own", "ref", "mut", "box"):
            add([{"op": "map_from_plain", "n": n, "form": [f], "panic_at": pa}], okind="arr", via="map_from_plain:" + f)
        for f in ("own", "ref", "mut", "refref", "box"):
            add([{"op": "zip_from_plain", "n": n, "form": [f], "panic_at": pa}], okind="arr", via="zip_from_plain:" + f)
    elif op in ("map", "fold"):
        if form[0]:
            for pm in ([-1, 0] if op == "map" and pa < 0 else [-1]):
                add([_mk("arr", n), {"op": op, "recv": [1], "form": ["own"], "panic_at": pa, "pass_mod": pm}], recv="own", pass_mod=pm)
            add([_mk("box", n), {"op": op, "recv": [1], "form": ["own"], "panic_at": pa}], recv="box")
            if op == "map":
                # a result element type without drop glue (a path chosen from the OUTPUT type must still release the source)
                add([_mk("arr", n), {"op": "map_plain_out", "recv": [1], "form": ["own"], "panic_at": pa}], recv="own:plain-out")
        else:
            for f in refs:
                add([_mk("arr", n), {"op": op, "recv": [1], "form": [f], "panic_at": pa}], recv=f)
    elif op == "zip":
        fa = ["own"] if form[0] else refs
        fb = ["own"] if form[1] else refs
        for a in fa:
            for b in fb:
                for pm in ([-1, 1] if pa < 0 and (form[0] or form[1]) else [-1]):
                    add([_mk("arr", n), _mk("arr", n), {"op": "zip", "recv": [1, 2], "form": [a, b], "panic_at": pa, "pass_mod": pm}], recv=a + "," + b, pass_mod=pm)
        if form[0] and form[1]:
            add([_mk("box", n), _mk("box", n), {"op": "zip", "recv": [1, 2], "form": ["own", "own"], "panic_at": pa}], recv="box,box")
        # one operand of another element type without drop glue (the drop-aware / drop-free branch is
        # chosen from BOTH element types): tracked on either side, owned or borrowed
        if form[0] != form[1] or (form[0] and form[1]):
            for side in ("l", "r"):
                for tf in (["own"] if form[0] or form[1] else []) + (["ref"] if not (form[0] and form[1]) else []):
                    for pf in ("own", "ref"):
                        add([_mk("arr", n), {"op": "zipx", "recv": [1], "form": [tf], "side": side, "pform": pf, "panic_at": pa}], recv="mixed:%s:%s:%s" % (side, tf, pf))
                if form[0] and form[1]:
                    # ... and a result type without drop glue as well
                    for pf in ("own", "ref", "mut"):
                        add([_mk("arr", n), {"op": "zipx_plain_out", "recv": [1], "form": ["own"], "side": side, "pform": pf, "panic_at": pa}], recv="mixed-plain-out:%s:%s" % (side, pf))
    return out


def clone_default_scripts(lens, prop, faults):
    out = []
    for n in lens:
        for kind in ("arr", "box"):
            pans = list(range(1, n + 1)) if faults else [0]
            if not faults:
                out.append({"case": "clone_twice", "prop": prop, "ety": "tk", "steps": [_mk(kind, n), {"op": "clone", "recv": [1], "form": ["ref"]}, {"op": "clone", "recv": [1], "form": ["ref"]}, {"op": "clone", "recv": [2], "form": ["ref"]}],
                            "d": {"op": "clone, again, and a clone of the clone", "kind": kind, "n": n}})
            for cp in pans:
                s = {"case": "clone", "prop": prop, "ety": "tk", "steps": [_mk(kind, n), {"op": "clone", "recv": [1], "form": ["ref"]}],
                     "d": {"op": "clone", "kind": kind, "n": n, "cpan": cp}}
                if cp:
                    s["fuse_clone"] = [cp]
                out.append(s)
            # Clone::clone_from: the destination (ids 1..n) is overwritten with clones of the source (ids n+1..2n)
            for cp in pans:
                s = {"case": "clone_from", "prop": prop, "ety": "tk", "steps": [_mk(kind, n), _mk(kind, n), {"op": "clone_from", "recv": [1, 2]}],
                     "d": {"op": "clone_from", "kind": kind, "n": n, "cpan": n + cp if cp else 0}}
                if cp:
                    s["fuse_clone"] = [n + cp]
                out.append(s)
            if not faults:
                out.append({"case": "default", "prop": prop, "ety": "tk", "steps": [{"op": "default", "n": n, "okind": kind}],
                            "d": {"op": "default", "kind": kind, "n": n}})
            else:
                # Default::default of the element type panics at its k-th call (the elements would get ids 1..n)
                for k in range(1, n + 1):
                    out.append({"case": "default", "prop": prop, "ety": "tk", "fuse_default": [k], "steps": [{"op": "default", "n": n, "okind": kind}],
                                "d": {"op": "default", "kind": kind, "n": n, "default_panics_at": k}})
    return out


def iter_cb_fault_scripts(lens, prop):
    """Iterator operations that call caller code: fold / rfold (closure panics at every call
    index) and clone (Clone::clone of every remaining element panics), from every (front, back)."""
    out = []
    for n in lens:
        for f in range(0, n + 1):
            for b in range(f, n + 1):
                ln = b - f
                for k in range(ln):
                    for op in ("iter_fold", "iter_rfold"):
                        out.append(iter_script({"n": n, "f": f, "b": b, "op": op, "panic_at": k}, prop, followups=False))
                    out.append(iter_script({"n": n, "f": f, "b": b, "op": "iter_clone", "cpan": f + 1 + k}, prop, followups=True))
    return out


def collect_scripts(lens, prop, faults, extra_hints=True):
    """Sources for try_from_iter / from_iter and the boxed forms: every count 0..N+3, not fused
    (Some after None), hints exact / loose / absent / lying either way; with `faults`, a source
    that panics at every call index."""
    out = []
    for n in lens:
        scripts = []
        for cnt in range(0, n + 4):
            scripts.append([1] * cnt)                     # cnt items then None forever
            scripts.append([1] * cnt + [0, 1, 1])         # not fused: more items after the first None
        hints = [None, [0, -1], [0, n + 5]]
        if extra_hints:
            hints += [[n, n], [n + 1, -1], [0, max(n - 1, 0)], [n + 2, n + 2], [0, 0], [1, 1]]
            # bounds of usize::MAX (coded 2^31 - 1): an upper bound that cannot be incremented, a lower bound beyond any N
            hints += [[0, 2147483647], [n, 2147483647], [2147483647, -1], [n + 2, 1], [2147483647, 0]]
        for sc in scripts:
            for h in hints:
                for op in ("try_from_iter", "from_iter", "try_boxed_from_iter", "boxed_from_iter"):
                    st = {"op": op, "n": n, "okind": "box" if "boxed" in op else "arr", "script": sc}
                    if h is not None:
                        st["hint"] = h
                    if sc == [1] * n:
                        st["arg"] = 1      # the source yields exactly N items and then ends (Collect!SourceIsExact)
                    out.append({"case": op, "prop": prop, "ety": "tk", "steps": [st],
                                "d": {"op": op, "n": n, "script": sc, "hint": h}})
        if faults:
            for cnt in range(0, n + 2):
                for op in ("try_from_iter", "from_iter", "try_boxed_from_iter", "boxed_from_iter"):
                    st = {"op": op, "n": n, "okind": "box" if "boxed" in op else "arr", "script": [1] * cnt + [2], "hint": [0, -1]}
                    out.append({"case": op, "prop": prop, "ety": "tk", "steps": [st], "d": {"op": op, "n": n, "source_panics_at": cnt}})
    return out


def collect_scripts_large(lens, prop):
    """The collecting forms at boundary / large N (a path chosen by N must still obey the outcome rule): counts N-1, N,
    N+1 and N+3, not fused, the hint kinds that matter, and a source panic at the first, a middle and the last poll."""
    out = []
    for n in lens:
        scripts = [[1] * (n - 1), [1] * n, [1] * (n + 1), [1] * (n + 3), [1] * (n - 1) + [0, 1, 1], [1] * n + [0, 1]]
        hints = [None, [0, -1], [n, n], [n + 1, -1], [0, n - 1], [0, 0], [0, 2147483647]]
        for sc in scripts:
            for h in hints:
                for op in ("try_from_iter", "from_iter", "try_boxed_from_iter", "boxed_from_iter"):
                    st = {"op": op, "n": n, "okind": "box" if "boxed" in op else "arr", "script": sc}
                    if h is not None:
                        st["hint"] = h
                    if sc == [1] * n:
                        st["arg"] = 1
                    out.append({"case": op, "prop": prop, "ety": "tk", "steps": [st], "d": {"op": op, "n": n, "items": sum(1 for x in sc if x == 1), "len_script": len(sc), "hint": h}})
        for cnt in (0, n // 2, n - 1, n):
            for op in ("try_from_iter", "from_iter", "try_boxed_from_iter", "boxed_from_iter"):
                st = {"op": op, "n": n, "okind": "box" if "boxed" in op else "arr", "script": [1] * cnt + [2], "hint": [0, -1]}
                out.append({"case": op, "prop": prop, "ety": "tk", "steps": [st], "d": {"op": op, "n": n, "source_panics_at": cnt}})
    return out


@check("C08")
def c08(tier, seed):
    c = Check("C08", tier, seed)
    binary = vlib.build_harness()
    r = c.mc("MC_Build", "MC_Build_q" if tier == "quick" else "MC_Build_t")
    descs = dedupe([d for d in r["scenarios"] if d["panic_at"] == -1])
    big = [8, 97] if tier == "quick" else [8, 12, 16, 33, 97, 1024]
    for d in list(descs):
        if d["n"] == 1:
            descs += [dict(d, n=n) for n in big]
    scns = [s for d in descs for s in func_scripts(d, "C08")]
    scns += clone_default_scripts([0, 1, 2, 3, 5] + big, "C08", False)
    c.cov["exhaustive"] = True
    c.cov["bounds"] = {"model N": "0..%d" % (4 if tier == "quick" else 6), "real-code N": sorted(set(d["n"] for d in descs)), "forms": "generate arr/box; map, fold: own/&/&mut/Box; zip: 9 stack forms + Box x Box; Clone, Default arr/box"}
    c.conform(binary, with_etys(scns, ["tk", "zst", "plain", "plz"]), "order")
    # "for every length" includes boxed arrays far larger than the stack: fold and by-value iteration of an 8 MiB boxed
    # array on a 256 KiB-stack thread (a stack overflow is an unexplained exit event)
    c.conform(binary, [{"case": "big", "prop": "C08", "d": {"op": op, "shape": "1m_u64"}} for op in ("boxed_fold", "boxed_into_iter", "boxed_map")], "big-boxed-consumers", sub="big")
    c.assumptions += ["element kinds: drop-tracked (needs_drop branch of the specialised zip bodies), drop-tracked zero-sized, and plain without drop glue (the ManuallyDrop branches)"]
    return c.finish()


@check("C04")
def c04(tier, seed):
    c = Check("C04", tier, seed)
    binary = vlib.build_harness()
    r = c.mc("MC_Build", "MC_Build_q" if tier == "quick" else "MC_Build_t")
    descs = dedupe([d for d in r["scenarios"] if d["panic_at"] >= 0])
    big = [8, 97] if tier == "quick" else [8, 16, 97, 1024]
    for d in list(descs):
        if d["n"] == 1:
            for n in big:
                descs += [dict(d, n=n, panic_at=k) for k in (sorted({0, 1, n // 2, n - 1}) if n < 1024 or tier != "quick" else [n // 2])]
    scns = [s for d in descs for s in func_scripts(d, "C04")]
    small = [1, 2, 3, 4] if tier == "quick" else [1, 2, 3, 4, 5, 6]
    scns += clone_default_scripts(small + [8], "C04", True)
    scns += iter_cb_fault_scripts(small, "C04")
    scns += iter_clone_from_scripts([1, 2, 3] if tier == "quick" else [1, 2, 3, 4], "C04", faults=True)
    scns += iter_search_scripts([1, 2, 3] if tier == "quick" else [1, 2, 3, 4], "C04", faults=True)
    ri = c.mc("MC_Iter", "MC_Iter_fq" if tier == "quick" else "MC_Iter_ft")
    scns += [iter_script(d, "C04") for d in dedupe([d for d in ri["scenarios"] if d.get("cpan", 0) > 0 and d["pan"] == 0])]
    scns += collect_scripts([0, 1, 2, 3] if tier == "quick" else [0, 1, 2, 3, 4, 8], "C04", True, extra_hints=False)
    # the `internals` builders / consumer used directly and abandoned at every position 0..=N
    for n in ([0, 1, 2, 3, 4] if tier == "quick" else [0, 1, 2, 3, 4, 5, 8, 16]):
        for pos in range(0, n + 1):
            for op in ("builder_abandon", "intrusive_abandon"):
                scns.append({"case": op, "prop": "C04", "ety": "tk", "steps": [{"op": op, "n": n, "arg": pos}], "d": {"op": op, "n": n, "position": pos}})
            if pos <= n:
                for op in ("builder_extend", "intrusive_extend"):
                    # the source ends after `pos` items, or panics at call index `pos`
                    for tail in ([0], [2]):
                        scns.append({"case": op, "prop": "C04", "ety": "tk", "steps": [{"op": op, "n": n, "okind": "arr", "script": [1] * pos + tail, "hint": [0, -1]}],
                                     "d": {"op": op, "n": n, "items": pos, "then": "none" if tail == [0] else "panic"}})
            scns.append({"case": "consumer_abandon", "prop": "C04", "ety": "tk", "steps": [_mk("arr", n), {"op": "consumer_abandon", "recv": [1], "arg": pos}],
                         "d": {"op": "consumer_abandon", "n": n, "position": pos}})
    c.cov["exhaustive"] = True
    c.cov["bounds"] = {"model N": "0..%d" % (4 if tier == "quick" else 6), "crash points": "every callback index of every closure / Clone::clone / Iterator::next call"}
    c.conform(binary, with_etys(scns, ["tk", "zst", "plain"]), "panics", nontrivial=lambda s: True)
    # the mechanism model's own behaviours are accepted by the contract; those of its mutated variants are not
    mech_conformance(c, "MC_Build", "TR_Build", False)
    mech_conformance(c, "MC_Build", "TR_Build_consumer", True)
    mech_conformance(c, "MC_Build", "TR_Build_builder", True)
    if tier != "quick":
        c.neg("MC_Build", "NEG_Build_consumer")
        c.neg("MC_Build", "NEG_Build_builder")
        c.neg("MC_Iter", "NEG_Iter_clone")
    return c.finish()


@check("C07")
def c07(tier, seed):
    c = Check("C07", tier, seed)
    binary = vlib.build_harness()
    r = c.mc("MC_Collect", "MC_Collect_q" if tier == "quick" else "MC_Collect_t")
    scns = []
    for d in dedupe(r["scenarios"]):
        for op in ("try_from_iter", "from_iter", "try_boxed_from_iter", "boxed_from_iter"):
            st = {"op": op, "n": d["n"], "okind": "box" if "boxed" in op else "arr", "script": d["script"], "hint": d["hint"]}
            if d["script"] == [1] * d["n"]:
                st["arg"] = 1
            scns.append({"case": op, "prop": "C07", "ety": "tk", "steps": [st], "d": dict(d, op=op)})
    # truthful hints (the script's own remaining count) and larger N: the harness's own table
    scns += [s for s in collect_scripts([0, 1, 2, 3] if tier == "quick" else [0, 1, 2, 3, 4, 5, 8, 16], "C07", True) if s["d"].get("hint") is None or s["d"]["n"] > 3]
    c.cov["exhaustive"] = True
    c.cov["bounds"] = {"model": "N in 0..%d, every 0/1 script of length <= N+3, a panic at every poll index, 8 hint kinds" % (3 if tier == "quick" else 5),
                       "large N": "N in %s: counts N-1, N, N+1, N+3, not fused, 6 hint kinds, source panics at 4 positions" % ([17, 33, 97] if tier == "quick" else [16, 17, 32, 33, 64, 65, 97, 1024])}
    c.conform(binary, with_etys(scns, ["tk", "zst"] if tier == "quick" else ["tk", "zst", "plain"]), "collect")
    # a length that cannot be allocated (2^50, coded 2 000 000 000): sources whose hint rules it out are refused - no
    # allocation attempt, which would end the process
    huge = []
    for sc, h in (([1, 1, 1], [0, 3]), ([1, 1, 1], None), ([], [0, 0]), ([1] * 5, [2, 5]), ([1, 1, 0, 1], [0, 1000])):
        for op in ("try_boxed_from_iter", "boxed_from_iter"):
            st = {"op": op, "n": 2000000000, "okind": "box", "script": sc}
            if h is not None:
                st["hint"] = h
            huge.append({"case": op, "prop": "C07", "ety": "tk", "steps": [st], "d": {"op": op, "n": "2^50", "script": sc, "hint": h}})
    c.conform(binary, with_etys(huge, ["tk", "plain"]), "collect-unallocatable")
    # a source that owns a value with a destructor besides the items it yields (like the unread tail behind `.take(n)`):
    # it must have been dropped when the call is over, whatever the outcome
    guarded = []
    for n in ([0, 1, 2] if tier == "quick" else [0, 1, 2, 3, 5]):
        for sc in ([1] * n, [1] * (n + 1), [1] * max(n - 1, 0), [1] * n + [0, 1], [1] * min(n, 1) + [2]):
            for h in (None, [0, -1], [n + 1, -1]):
                for op in ("try_from_iter", "from_iter", "try_boxed_from_iter", "boxed_from_iter"):
                    st = {"op": op, "n": n, "okind": "box" if "boxed" in op else "arr", "script": sc, "elems": [1]}
                    if h is not None:
                        st["hint"] = h
                    if sc == [1] * n:
                        st["arg"] = 1
                    guarded.append({"case": op, "prop": "C07", "ety": "tk", "noanon": True, "steps": [{"op": "mk_elem"}, st], "d": {"op": op, "n": n, "script": sc, "hint": h, "source_owns": "a tracked value"}})
    c.conform(binary, with_etys(guarded, ["tk", "plain"]), "collect-owning-source")
    c.conform(binary, with_etys(collect_scripts_large([17, 33, 97] if tier == "quick" else [16, 17, 32, 33, 64, 65, 97, 1024], "C07"), ["tk", "plain"] if tier == "quick" else ["tk", "zst", "plain"]), "collect-large")
    if tier == "quick":
        # N = 1024 with the plain kind only (cheap to validate): a path that starts somewhere between 97 and 1024
        c.conform(binary, with_etys([s for s in collect_scripts_large([1024], "C07") if s["d"].get("hint") in (None, [0, -1])], ["plain"]), "collect-1024")
    if tier != "quick":
        c.neg("MC_Collect", "NEG_Collect_noprobe")
    return c.finish()


# ---------------------------------------------------------------------------------------------
# C03: exactly-once drop across histories of ownership moves
# ---------------------------------------------------------------------------------------------
def with_etys(scns, etys):
    """Replicates scenarios over element kinds: drop-tracked (tk), drop-tracked zero-sized (zst,
    identities inferred by TLC) and plain (no destructor).  Fault-injecting scenarios need
    identities; pass-through callbacks need them too."""
    out = []
    for s in scns:
        for e in etys:
            if e != "tk" and (s.get("fuse_drop") or s.get("fuse_clone") or s.get("fuse_default")):
                continue
            if e in ("zst", "plz") and s.get("noanon"):
                continue
            if e in ("zst", "plz") and any(st.get("pass_mod", -1) >= 0 or st.get("op") in ("clone_from", "iter_clone_from") for st in s["steps"]):
                continue     # (identity inference does not cover a destination's old elements dropped amid clones)
            t = dict(s)
            t["ety"] = e
            t["d"] = dict(s.get("d", {}), ety=e)
            out.append(t)
    return out


def random_histories(rng, count, max_len, steps_n, max_vals=3):
    """Seeded random chains of ownership-moving operations (the harness's own driver, beyond the
    bounds of the exhaustive model).  Tracks only lengths and kinds, never contents."""
    out = []
    conv = {"native": ["from_array", "from_native"], "tuple": ["from_tuple"], "box": ["unbox", "into_boxed_slice", "into_vec", "box_into_iter", "map", "fold", "clone"],
            "bslice": ["bslice_into_vec", "try_from_boxed_slice", "arr_try_from_bslice"], "vec": ["vec_into_bslice", "try_from_vec", "arr_try_from_vec"], "viter": []}
    for _ in range(count):
        steps = []
        vals = {}  # h -> (kind, n, inner)
        nexth = 1
        loose = 0
        for _ in range(steps_n):
            if not vals or (len(vals) < max_vals and rng.random() < 0.25):
                kind = rng.choice(["arr", "arr", "arr", "native", "tuple", "vec", "bslice", "box", "nested"])
                n = rng.randint(1 if kind == "tuple" else 0, max_len)
                if kind == "nested":
                    inner = rng.randint(0, 3)
                    outer = rng.randint(0, 3)
                    if inner * outer > max_len:
                        continue
                    steps.append({"op": "mk", "n": outer, "kind": "nested", "inner": inner})
                    vals[nexth] = ("nested", inner * outer, inner)
                else:
                    st = {"op": "mk", "n": n, "kind": kind}
                    if kind == "vec" and rng.random() < 0.5:
                        st["cap"] = 2
                    steps.append(st)
                    vals[nexth] = (kind, n, 0)
                nexth += 1
                continue
            if loose < 2 and rng.random() < 0.1:
                steps.append({"op": "mk_elem"})
                loose += 1
                continue
            h = rng.choice(list(vals))
            kind, n, inner = vals[h]

            def out1(k, m, inn=0):
                nonlocal nexth
                vals[nexth] = (k, m, inn)
                nexth += 1

            if kind == "arr":
                ops = ["zipx", "into_iter", "into_iter", "into_iter", "box_new", "vec_from_arr", "bslice_from_arr", "map", "fold", "clone", "split"]
                if n <= 16:
                    ops += ["into_array", "into_native"]
                if 1 <= n <= 12:
                    ops += ["into_tuple"]
                if n >= 1:
                    ops += ["pop_back", "pop_front", "remove", "swap_remove"]
                if loose and n < max_len:
                    ops += ["append", "prepend"]
                others = [g for g in vals if g != h and vals[g][0] == "arr"]
                if any(vals[g][1] + n <= max_len for g in others):
                    ops.append("concat")
                if any(vals[g][1] == n for g in others):
                    ops.append("zip")
                ops.append("unflatten")
                o = rng.choice(ops)
                if o in ("append", "prepend"):
                    steps.append({"op": o, "recv": [h], "pick": 0})
                    del vals[h]
                    loose -= 1
                    out1("arr", n + 1)
                elif o in ("pop_back", "pop_front"):
                    steps.append({"op": o, "recv": [h]})
                    del vals[h]
                    out1("arr", n - 1)
                    loose += 1
                elif o in ("remove", "swap_remove"):
                    i = rng.randint(0, n - 1)
                    steps.append({"op": o, "recv": [h], "arg": i})
                    del vals[h]
                    out1("arr", n - 1)
                    loose += 1
                elif o == "split":
                    k = rng.randint(0, n)
                    steps.append({"op": o, "recv": [h], "arg": k})
                    del vals[h]
                    out1("arr", k)
                    out1("arr", n - k)
                elif o == "concat":
                    g = rng.choice([g for g in others if vals[g][1] + n <= max_len])
                    steps.append({"op": o, "recv": [h, g]})
                    m = vals[g][1]
                    del vals[h], vals[g]
                    out1("arr", n + m)
                elif o == "zip":
                    g = rng.choice([g for g in others if vals[g][1] == n])
                    fa, fb = rng.choice(["own", "ref", "mut"]), rng.choice(["own", "ref", "mut"])
                    steps.append({"op": o, "recv": [h, g], "form": [fa, fb]})
                    if fa == "own":
                        del vals[h]
                    if fb == "own":
                        del vals[g]
                    out1("arr", n)
                elif o == "unflatten":
                    cands = [i for i in range(1, 7) if n % i == 0 and n // i <= 6]
                    if not cands:
                        continue
                    i = rng.choice(cands)
                    steps.append({"op": o, "recv": [h], "arg": i})
                    del vals[h]
                    out1("nested", n, i)
                elif o == "zipx":
                    # zip with a plain array of another element type (selects the drop-aware branch from both types)
                    f = rng.choice(["own", "own", "ref"])
                    steps.append({"op": o, "recv": [h], "form": [f], "side": rng.choice(["l", "r"]), "pform": rng.choice(["own", "ref"])})
                    if f == "own":
                        del vals[h]
                    out1("arr", n)
                elif o in ("map", "fold"):
                    f = rng.choice(["own", "ref", "mut"])
                    steps.append({"op": o, "recv": [h], "form": [f]})
                    if f == "own":
                        del vals[h]
                    if o == "map":
                        out1("arr", n)
                elif o == "clone":
                    steps.append({"op": o, "recv": [h], "form": ["ref"]})
                    out1("arr", n)
                else:
                    steps.append({"op": o, "recv": [h]})
                    del vals[h]
                    out1({"into_iter": "iter", "box_new": "box", "vec_from_arr": "vec", "bslice_from_arr": "bslice", "into_array": "native", "into_native": "native", "into_tuple": "tuple"}[o], n)
            elif kind == "iter":
                o = rng.choice(["next", "next_back", "next", "next_back", "nth", "nth_back", "nth", "nth_back", "len", "iter_clone", "count", "last", "iter_fold", "iter_rfold", "release", "debug", "collect_iter", "collect_iter_take", "iter_find", "iter_position", "iter_for_each"])
                if o in ("next", "next_back"):
                    steps.append({"op": o, "recv": [h]})
                    if n:
                        vals[h] = ("iter", n - 1, 0)
                        loose += 1
                elif o in ("nth", "nth_back"):
                    a = rng.choice([0, 1, n, n + 1, n + 2, rng.randint(0, n + 1)])
                    steps.append({"op": o, "recv": [h], "arg": a})
                    k = min(a, n)
                    if n - k > 0:
                        loose += 1
                        vals[h] = ("iter", n - k - 1, 0)
                    else:
                        vals[h] = ("iter", 0, 0)
                elif o in ("len", "debug"):
                    steps.append({"op": o, "recv": [h]})
                elif o == "iter_clone":
                    steps.append({"op": o, "recv": [h]})
                    out1("iter", n)
                elif o == "release":
                    steps.append({"op": "release", "h": h})
                    del vals[h]
                elif o == "collect_iter_take":
                    tgt = rng.choice([n, max(n - 1, 0), max(n - 2, 0), n + 1])
                    if tgt > max_len:
                        tgt = n
                    steps.append({"op": o, "recv": [h], "arg": tgt})
                    del vals[h]
                    if tgt <= n:
                        out1("arr", tgt)
                elif o in ("iter_find", "iter_position"):
                    stop = rng.choice([-1] + list(range(n))) if n else -1
                    steps.append({"op": o, "recv": [h], "arg": stop})
                    vals[h] = ("iter", 0 if stop < 0 else n - stop - 1, 0)
                    if o == "iter_find" and stop >= 0:
                        loose += 1
                elif o == "iter_for_each":
                    steps.append({"op": o, "recv": [h], "form": ["own"]})
                    del vals[h]
                elif o == "collect_iter":
                    tgt = rng.choice([n, n, n + 1, max(n - 1, 0)])
                    if tgt > max_len:
                        tgt = n
                    steps.append({"op": o, "recv": [h], "arg": tgt})
                    del vals[h]
                    if tgt == n:
                        out1("arr", n)
                else:
                    steps.append({"op": o, "recv": [h]})
                    del vals[h]
                    if o == "last" and n:
                        loose += 1
            elif kind == "nested":
                steps.append({"op": "flatten", "recv": [h]})
                del vals[h]
                out1("arr", n)
            elif kind == "viter":
                steps.append({"op": "release", "h": h})
                del vals[h]
            else:
                o = rng.choice(conv[kind])
                if o in ("try_from_vec", "arr_try_from_vec", "try_from_boxed_slice", "arr_try_from_bslice"):
                    tgt = n if rng.random() < 0.7 else (n + 1 if n + 1 <= max_len else max(n - 1, 0))
                    steps.append({"op": o, "recv": [h], "arg": tgt})
                    del vals[h]
                    if tgt == n:
                        out1("box" if o.startswith("try_") else "arr", n)
                elif o in ("map", "fold", "clone"):
                    if o == "clone":
                        steps.append({"op": o, "recv": [h], "form": ["ref"]})
                        out1("box", n)
                    else:
                        steps.append({"op": o, "recv": [h], "form": ["own"]})
                        del vals[h]
                        if o == "map":
                            out1("box", n)
                else:
                    steps.append({"op": o, "recv": [h]})
                    del vals[h]
                    out1({"from_array": "arr", "from_native": "arr", "from_tuple": "arr", "unbox": "arr", "into_boxed_slice": "bslice", "into_vec": "vec", "box_into_iter": "viter",
                          "bslice_into_vec": "vec", "vec_into_bslice": "bslice"}[o], n)
            while loose > 3:
                steps.append({"op": "release_elem", "pick": 0})
                loose -= 1
        out.append({"case": "hist-rnd", "ety": "tk", "steps": steps, "d": {"kind": "random-history", "steps": len(steps)}})
    return out


def big_bytes_scripts(lens, prop):
    """Length-preserving ownership moves of arrays whose BYTE size is large (256-byte tracked elements: 256 KiB at
    N = 1024; the kind is called tk1k for its first size): conversions to and from Vec / Box / Box<[T]> / native arrays, the functional
    operations, by-value iteration abandoned half-way.  A fast path selected by byte size is on the path here."""
    out = []

    def add(name, steps, alloc=False):
        s = {"case": "bigbytes-" + name, "prop": prop, "ety": "tk1k", "steps": steps, "d": {"kind": "big-bytes", "op": name, "n": steps[0].get("n")}}
        if alloc:
            s["alloc"] = True
        out.append(s)
    for n in lens:
        add("vec_from_arr", [_mk("arr", n), {"op": "vec_from_arr", "recv": [1]}, {"op": "arr_try_from_vec", "recv": [2], "arg": n}], alloc=True)
        add("bslice_from_arr", [_mk("arr", n), {"op": "bslice_from_arr", "recv": [1]}, {"op": "arr_try_from_bslice", "recv": [2], "arg": n}], alloc=True)
        add("box_new_unbox", [_mk("arr", n), {"op": "box_new", "recv": [1]}, {"op": "unbox", "recv": [2]}], alloc=True)
        add("box_vec_box", [_mk("box", n), {"op": "into_vec", "recv": [1]}, {"op": "try_from_vec", "recv": [2], "arg": n}, {"op": "into_boxed_slice", "recv": [3]}, {"op": "try_from_boxed_slice", "recv": [4], "arg": n}], alloc=True)
        add("box_into_iter", [_mk("box", n), {"op": "box_into_iter", "recv": [1]}], alloc=True)
        add("native", [_mk("arr", n), {"op": "into_array", "recv": [1]}, {"op": "from_array", "recv": [2]}, {"op": "into_native", "recv": [3]}, {"op": "from_native", "recv": [4]}])
        add("map", [_mk("arr", n), {"op": "map", "recv": [1], "form": ["own"]}])
        add("map_ref", [_mk("arr", n), {"op": "map", "recv": [1], "form": ["ref"]}])
        add("zip", [_mk("arr", n), _mk("arr", n), {"op": "zip", "recv": [1, 2], "form": ["own", "own"]}])
        add("fold", [_mk("arr", n), {"op": "fold", "recv": [1], "form": ["own"]}])
        add("clone", [_mk("arr", n), {"op": "clone", "recv": [1], "form": ["ref"]}])
        add("iter_abandon", [_mk("arr", n), {"op": "into_iter", "recv": [1]}, {"op": "next", "recv": [2]}, {"op": "next_back", "recv": [2]}, {"op": "nth", "recv": [2], "arg": 3}, {"op": "iter_clone", "recv": [2]}])
        add("iter_collect", [_mk("arr", n), {"op": "into_iter", "recv": [1]}, {"op": "collect_iter", "recv": [2], "n": n}])
    return out


@check("C03")
def c03(tier, seed):
    c = Check("C03", tier, seed)
    binary = vlib.build_harness()
    # scenarios: every history of <= 4 operations; the thorough tier additionally model-checks histories of 5
    # operations over longer arrays (14 million ledger states) without emitting them
    r = c.mc("MC_Pool", "MC_Pool_q", workers=8, timeout=1500)
    if tier != "quick":
        c.mc("MC_Pool", "MC_Pool_t", workers=8, timeout=3000, xmx="12g")
    hists = [h for h in r["scenarios"] if any("recv" in st for st in h["steps"])]
    rng = random.Random(seed)
    if tier == "quick" and len(hists) > 2500:
        # keep the histories with the most chained calls, sample the rest
        hists.sort(key=lambda h: -sum(1 for st in h["steps"] if "recv" in st))
        hists = hists[:1500] + rng.sample(hists[1500:], 1000)
    scns = [{"case": "hist", "steps": h["steps"], "d": {"kind": "tlc-history", "steps": h["steps"]}} for h in hists]
    c.cov["bounds"] = {"exhaustive model": "histories of <= %d operations over <= 2 values of length <= %d" % ((4, 2) if tier == "quick" else (5, 3)),
                       "histories executed": "%d TLC histories of <= 4 operations%s" % (len(hists), " (sampled)" if tier == "quick" else " (all)")}
    c.conform(binary, with_etys(scns, ["tk"]), "tlc-histories")
    if tier != "quick":
        sub = rng.sample(scns, min(len(scns), 6000))
        c.conform(binary, with_etys(sub, ["zst", "plain", "plz"]), "tlc-histories-zst-plain")
    # longer chained histories: TLC simulation of the same model, then the harness's own seeded driver
    sim = c.mc("MC_Pool", "MC_Pool_sim", workers=1, extra=["-simulate", "num=%d" % (60 if tier == "quick" else 600), "-depth", "200", "-seed", str(seed)])
    scns = [{"case": "sim", "steps": h["steps"], "d": {"kind": "tlc-simulation", "steps": h["steps"]}} for h in sim["scenarios"]]
    c.conform(binary, with_etys(scns, ["tk", "zst", "plain"]), "tlc-simulation")
    rnd = random_histories(rng, 30 if tier == "quick" else 300, 12, 40 if tier == "quick" else 120)
    c.conform(binary, with_etys(rnd, ["tk", "zst", "plain"]), "random-histories")
    c.conform(binary, big_bytes_scripts([1024] if tier == "quick" else [97, 1024], "C03"), "big-bytes")
    if tier != "quick":
        c.asan_pass("random-histories")
        c.asan_pass("tlc-simulation")
    return c.finish()


# ---------------------------------------------------------------------------------------------
# views: C02, C10, by-reference halves of C09 (split) and C11 (flatten/unflatten)
# ---------------------------------------------------------------------------------------------
VIEW_ETYS = ["unit", "u8", "u32", "u64", "u8u16", "b24", "owned"]
SLICE_APIS = ["from_slice", "try_from_slice", "tryfrom_ref", "from_mut_slice", "try_from_mut_slice", "tryfrom_mut"]
WHOLE_APIS = ["as_slice", "deref", "asref_slice", "borrow", "as_mut_slice", "deref_mut", "asmut_slice", "borrow_mut", "iter", "ref_into_iter", "iter_mut", "mut_into_iter",
              "asref_array", "asmut_array", "from_array_ref", "from_array_mut"]
INDEX_APIS = ["index", "index_mut", "get"]
CHUNK_APIS = ["chunks_from_slice", "chunks_from_slice_mut"]
CAST_APIS = ["slice_from_chunks", "slice_from_chunks_mut", "from_chunks", "from_chunks_mut", "into_chunks", "into_chunks_mut"]
HLENS = [0, 1, 2, 3, 4, 5, 6, 7, 8, 9, 10, 11, 12, 16, 33, 97, 1024]
SPLIT_OK = None


def split_pairs():
    out = []
    for n in list(range(0, 13)) + [16, 97]:
        ks = sorted(set(list(range(0, min(n, 12) + 1)) + [n // 2, n - 1 if n else 0, n]))
        for k in ks:
            if k in HLENS and k <= n:
                out.append((n, k))
    return out


def view_scn(prop, api, ety, n=0, l=0, k=0, m=0):
    d = {"api": api, "ety": ety, "n": n, "l": l, "k": k, "m": m}
    return {"case": api, "prop": prop, "d": d}


def views_from_model(c, cfg, keep):
    r = c.mc("MC_Views", cfg)
    return dedupe([d for d in r["scenarios"] if keep(d)])


@check("C02")
def c02(tier, seed):
    c = Check("C02", tier, seed)
    binary = vlib.build_harness()
    rows = views_from_model(c, "MC_Views", lambda d: d["api"] in WHOLE_APIS + SLICE_APIS + INDEX_APIS)
    etys = ["unit", "u8", "u64", "owned"] if tier == "quick" else VIEW_ETYS
    big = [9, 10, 11, 12, 16, 97] if tier == "quick" else [5, 6, 9, 10, 11, 12, 16, 33, 97, 1024]
    scns = []
    for d in rows:
        for e in etys:
            scns.append(view_scn("C02", d["api"], e, d["n"], d["l"]))
            if d["api"] in SLICE_APIS:
                # the same slice taken 1 and 3 elements into a larger buffer (no allocation-boundary alignment)
                scns.append(view_scn("C02", d["api"], e, d["n"], d["l"], 3))
                if e in ("u8", "owned"):
                    scns.append(view_scn("C02", d["api"], e, d["n"], d["l"], 1))
    for n in big:
        for api in WHOLE_APIS:
            for e in etys:
                scns.append(view_scn("C02", api, e, n, n))
        for api in SLICE_APIS:
            for l in sorted(set([0, n - 1, n, n + 1, 2 * n, n + 7])):
                for e in etys[:3]:
                    scns.append(view_scn("C02", api, e, n, l))
        for api in INDEX_APIS:
            for i in sorted(set([0, n // 2, n - 1, n, n + 1])):
                for e in etys[:3]:
                    scns.append(view_scn("C02", api, e, n, i))
    c.cov["exhaustive"] = True
    c.conform(binary, scns, "views", sub="views")
    if tier != "quick":
        c.asan_pass("views", sub="views")
    # by-value conversions to and from [T; N] and same-typed tuples keep every element at its position
    conv = []
    for n in range(0, 13):
        steps = [[_mk("arr", n), {"op": "into_array", "recv": [1]}, {"op": "from_array", "recv": [2]}, {"op": "into_native", "recv": [3]}, {"op": "from_native", "recv": [4]}]]
        if n >= 1:
            steps.append([_mk("arr", n), {"op": "into_tuple", "recv": [1]}, {"op": "from_tuple", "recv": [2]}])
            steps.append([_mk("tuple", n), {"op": "from_tuple", "recv": [1]}, {"op": "into_tuple", "recv": [2]}])
        steps.append([_mk("native", n), {"op": "from_native", "recv": [1]}, {"op": "into_array", "recv": [2]}])
        for st in steps:
            conv.append({"case": "conv", "prop": "C02", "ety": "tk", "steps": st, "d": {"op": "byvalue-conversions", "n": n, "steps": [s["op"] for s in st]}})
    for n in (14, 15, 16, 33, 97) + ((1024,) if tier != "quick" else ()):
        conv.append({"case": "conv", "prop": "C02", "ety": "tk", "steps": [_mk("arr", n), {"op": "into_array", "recv": [1]}, {"op": "from_native", "recv": [2]}, {"op": "into_native", "recv": [3]}, {"op": "from_array", "recv": [4]}],
                     "d": {"op": "byvalue-conversions", "n": n}})
    c.conform(binary, with_etys(conv, ["tk", "zst", "plain", "plz"]), "conversions")
    # arrays of zero-sized elements longer than 32 bits / than isize::MAX (only such arrays can be that long)
    c.conform(binary, [{"case": "big", "prop": "C02", "d": {"op": "zstviews", "shape": s}} for s in ("2^32", "2^62", "2^63-1", "2^63", "2^63+5", "2^64-1")], "huge-zst-arrays", sub="big")
    return c.finish()


@check("C10")
def c10(tier, seed):
    c = Check("C10", tier, seed)
    binary = vlib.build_harness()
    rows = views_from_model(c, "MC_Views", lambda d: d["api"] in CHUNK_APIS + CAST_APIS)
    etys = ["unit", "u8", "u32", "u8u16"] if tier == "quick" else ["unit", "u8", "u32", "u8u16", "b24", "u64", "owned"]
    scns = []
    for d in rows:
        for e in etys:
            scns.append(view_scn("C10", d["api"], e, d["n"], d["l"], 0, d["m"]))
            if d["api"] in CHUNK_APIS and e in ("u8", "u32"):
                scns.append(view_scn("C10", d["api"], e, d["n"], d["l"], 1 if e == "u8" else 3, d["m"]))
    rng = random.Random(seed)
    for n in ([5, 6, 10, 12, 16, 97] if tier == "quick" else [5, 6, 9, 10, 11, 12, 16, 33, 97, 1024]):
        ls = sorted(set([0, 1, n - 1, n, n + 1, 2 * n - 1, 2 * n, 2 * n + 1, 3 * n + 2, 4 * n + 3] + [rng.randint(0, 4 * n + 3) for _ in range(4)]))
        for api in CHUNK_APIS:
            for l in ls:
                for e in etys[:3]:
                    scns.append(view_scn("C10", api, e, n, l))
        for api in CAST_APIS:
            for m in (0, 1, 3):
                for e in etys[:3]:
                    scns.append(view_scn("C10", api, e, n, 0, 0, m))
    c.cov["exhaustive"] = True
    c.cov["bounds"] = {"model": "N in {0,1,2,3,4,7,8}, L in 0..4N+3, chunk counts 0..3"}
    c.conform(binary, scns, "chunks", sub="views")
    c.conform(binary, [{"case": "big", "prop": "C10", "d": {"op": "zsthuge", "shape": s, "sub": l}} for s in ("1", "2", "3", "7") for l in ("isize_max_plus_1", "2^63+5", "usize_max")], "huge-zst-slices", sub="big")
    if tier != "quick":
        c.asan_pass("chunks", sub="views")
    c.assumptions.append("the const-evaluator half of the quantifier is covered by C18's generated const items")
    return c.finish()


# ---------------------------------------------------------------------------------------------
# C09 sequence operations, C11 flatten / unflatten
# ---------------------------------------------------------------------------------------------
def seq_scripts(d, prop):
    op, n, arg, m = d["op"], d["n"], d["arg"], d["m"]
    steps = [_mk("arr", n)]
    if op in ("append", "prepend"):
        steps += [{"op": "mk_elem"}, {"op": op, "recv": [1], "pick": 0}]
    elif op == "concat":
        steps += [_mk("arr", m), {"op": op, "recv": [1, 2]}]
    elif op in ("pop_back", "pop_front"):
        steps += [{"op": op, "recv": [1]}]
    else:
        steps += [{"op": op, "recv": [1], "arg": arg}]
    return {"case": op, "prop": prop, "ety": "tk", "steps": steps, "d": dict(d)}


@check("C09")
def c09(tier, seed):
    c = Check("C09", tier, seed)
    binary = vlib.build_harness()
    r = c.mc("MC_Seq")
    descs = dedupe(r["scenarios"])
    # usize::MAX and boundary / larger lengths beyond the model
    for n in (1, 4, 8, 12):
        for op in ("remove", "swap_remove"):
            descs.append({"op": op, "n": n, "arg": 2147483647, "m": 0})
            # 2^32 + j: out of range, but the low 32 bits are a valid index
            for j in sorted({0, 1, n - 1}):
                descs.append({"op": op, "n": n, "arg": 2000000000 + j, "m": 0})
    for n in (9, 10, 11):
        descs += [{"op": "append", "n": n, "arg": 0, "m": 0}, {"op": "prepend", "n": n, "arg": 0, "m": 0}, {"op": "pop_back", "n": n + 1, "arg": 0, "m": 0}, {"op": "pop_front", "n": n + 1, "arg": 0, "m": 0}]
        descs += [{"op": "split", "n": 12, "arg": n, "m": 0}, {"op": "concat", "n": n, "arg": 0, "m": 12 - n}, {"op": "remove", "n": 12, "arg": n, "m": 0}, {"op": "swap_remove", "n": 12, "arg": n, "m": 0}]
    # boundary / large lengths: sparse instances of every length-changing operation (16->17, 32->33, 64->65,
    # 1024->1025 and back, splits and concats of 33, 65 and 1025), every index class for remove / swap_remove
    for n in (16, 32, 64, 1024):
        descs += [{"op": "append", "n": n, "arg": 0, "m": 0}, {"op": "prepend", "n": n, "arg": 0, "m": 0}]
    for n in (17, 33, 65, 1025):
        descs += [{"op": "pop_back", "n": n, "arg": 0, "m": 0}, {"op": "pop_front", "n": n, "arg": 0, "m": 0}]
        for op in ("remove", "swap_remove"):
            for i in sorted({0, 1, n // 2, n - 2, n - 1, n, n + 1, 2147483647, 2000000000, 2000000000 + n - 1}):
                descs.append({"op": op, "n": n, "arg": i, "m": 0})
    for (n, k) in [(33, 16), (33, 1), (33, 32), (65, 32), (1025, 1024), (1025, 1)]:
        descs += [{"op": "split", "n": n, "arg": k, "m": 0}, {"op": "concat", "n": k, "arg": 0, "m": n - k}]
    scns = [seq_scripts(d, "C09") for d in descs]
    c.cov["exhaustive"] = True
    c.cov["bounds"] = {"model": "N in 0..8, every K <= N, every (N, M) with N+M <= 8, every index 0..N+1", "extra": "usize::MAX and 2^32 + j indices, lengths 9..12, 16/17, 32/33, 64/65, 1024/1025"}
    # (the one-byte plain kind has only 255 identities)
    c.conform(binary, [s for s in with_etys(scns, ["tk", "zst", "plain", "tk24", "p1"]) if not (s["d"]["n"] + s["d"].get("m", 0) > 120 and (s["ety"] == "p1" or (tier == "quick" and s["ety"] not in ("tk", "plain"))))], "owned")
    if tier != "quick":
        c.asan_pass("owned")
    # lengths far above the value pool's: 2048, 2049, 4097 (contents summarised; plain elements)
    bigs = []
    for shape in ("2048", "2049", "4097"):
        n = int(shape)
        for sub in ("remove", "swap_remove"):
            for i in sorted({0, 1, 2, 511, n // 2 - 1, n // 2, n - 2, n - 1}):
                bigs.append({"case": "big", "prop": "C09", "d": {"op": "bigseq", "shape": shape, "sub": sub, "arg": i}})
        for sub in ("pop_back", "pop_front", "append", "prepend", "split1", "split1024"):
            bigs.append({"case": "big", "prop": "C09", "d": {"op": "bigseq", "shape": shape, "sub": sub, "arg": 0}})
    c.conform(binary, bigs, "very-long-arrays", sub="big")
    # arrays of zero-sized elements longer than 32 bits / than isize::MAX (every operation is O(1) there)
    c.conform(binary, [{"case": "big", "prop": "C09", "d": {"op": "zstseq", "shape": s}} for s in ("2^32", "2^32+5", "2^63")], "huge-zst-arrays", sub="big")
    rows = views_from_model(c, "MC_Views", lambda d: d["api"] in ("split_ref", "split_mut"))
    vs = []
    for d in rows:
        for e in (["unit", "u8", "u64", "b24"] if tier == "quick" else VIEW_ETYS):
            vs.append(view_scn("C09", d["api"], e, d["n"], d["n"], d["k"]))
    for (n, k) in split_pairs():
        if n > 8:
            for api in ("split_ref", "split_mut"):
                for e in ("unit", "u8", "b24"):
                    vs.append(view_scn("C09", api, e, n, n, k))
    c.conform(binary, vs, "split-by-ref", sub="views")
    if tier != "quick":
        c.asan_pass("split-by-ref", sub="views")
    c.assumptions.append("owned operations: element sizes 0 (tracked zero-sized), 1 (plain), 8 (tracked, plain) and 24 bytes (tracked); by-reference split: 0, 1, 8, 24; out-of-bounds reads whose result is discarded are visible only to the thorough tier's sanitizer build")
    return c.finish()


FLAT_PAIRS = [(a, b) for a in range(0, 7) for b in range(0, 7)] + [(1, 1024), (1024, 1), (16, 64), (2, 8), (8, 2)]
ARR_LENS = set(list(range(0, 13)) + [14, 15, 16, 18, 20, 24, 25, 30, 33, 36, 97, 1024])


@check("C11")
def c11(tier, seed):
    c = Check("C11", tier, seed)
    binary = vlib.build_harness()
    rows = views_from_model(c, "MC_Views", lambda d: d["api"] in ("flatten_ref", "flatten_mut", "unflatten_ref", "unflatten_mut"))
    seen = set((d["api"], d["n"], d["m"]) for d in rows)
    for (a, b) in FLAT_PAIRS:
        for api in ("flatten_ref", "flatten_mut", "unflatten_ref", "unflatten_mut"):
            if api.startswith("unflatten") and a == 0:
                continue
            if (api, a, b) not in seen:
                rows.append({"api": api, "n": a, "m": b})
    vs = []
    for d in rows:
        if (d["n"], d["m"]) not in FLAT_PAIRS:
            continue
        big = d["n"] * d["m"] > 64
        for e in (["unit", "u8", "u64"] if (tier == "quick" or big) else VIEW_ETYS):
            vs.append(view_scn("C11", d["api"], e, d["n"], d["n"] * d["m"], 0, d["m"]))
    c.conform(binary, vs, "by-ref", sub="views")
    if tier != "quick":
        c.asan_pass("by-ref", sub="views")
    owned = []
    for (a, b) in FLAT_PAIRS:
        if a * b not in ARR_LENS or (a, b) == (16, 64) and False:
            continue
        if (a > 6 or b > 6) and (a, b) not in [(1, 1024), (1024, 1), (16, 64), (2, 8), (8, 2)]:
            continue
        st = [{"op": "mk", "kind": "nested", "n": b, "inner": a}, {"op": "flatten", "recv": [1]}]
        if a >= 1:
            st += [{"op": "unflatten", "recv": [2], "arg": a}, {"op": "flatten", "recv": [3]}]
        owned.append({"case": "flatten", "prop": "C11", "ety": "tk", "steps": st, "d": {"op": "flatten/unflatten owned", "n": a, "m": b}})
    c.cov["exhaustive"] = True
    c.cov["bounds"] = {"pairs": "all (N, M) in 0..6 x 0..6 plus (1,1024), (1024,1), (16,64), (2,8), (8,2); owned, & and &mut forms"}
    c.conform(binary, with_etys(owned, ["tk", "zst", "plain", "plz"]), "owned")
    # the large pairs once more with 256-byte tracked elements (256 KiB in all: a path chosen by byte size)
    c.conform(binary, with_etys([s for s in owned if s["d"]["n"] * s["d"]["m"] >= 1024], ["tk1k"]), "owned-large-bytes")
    return c.finish()


# ---------------------------------------------------------------------------------------------
# C15 / C16: heap interop and the allocator ledger
# ---------------------------------------------------------------------------------------------
def alloc_scenarios(lens, etys, prop, panics=True):
    """Every alloc-feature operation, as scenarios with the recording allocator on.  The operation
    under test is the last step.  With `panics`, closure-calling operations get an injected panic
    at every call index."""
    out = []

    def add(steps, d, ety):
        out.append({"case": d["op"], "prop": prop, "ety": ety, "alloc": True, "steps": steps, "d": dict(d, ety=ety)})

    for ety in etys:
        for n in lens:
            for okind_op in ("generate", "default"):
                if okind_op == "default" and ety == "plain":
                    pass
                add([{"op": okind_op, "n": n, "okind": "box"}], {"op": "boxed_" + okind_op, "n": n}, ety)
                if panics and okind_op == "generate":
                    for k in range(n if n <= 3 else 0, n) if n > 3 else range(n):
                        add([{"op": "generate", "n": n, "okind": "box", "panic_at": k}], {"op": "boxed_generate", "n": n, "panic_at": k}, ety)
            for cnt in sorted({max(n - 1, 0), n, n + 1}):
                for op in ("try_boxed_from_iter", "boxed_from_iter"):
                    add([{"op": op, "n": n, "okind": "box", "script": [1] * cnt, "hint": [0, -1]}], {"op": op, "n": n, "items": cnt}, ety)
            if panics:
                for k in range(min(n, 3) + 1):
                    add([{"op": "try_boxed_from_iter", "n": n, "okind": "box", "script": [1] * k + [2], "hint": [0, -1]}], {"op": "try_boxed_from_iter", "n": n, "source_panics_at": k}, ety)
            # O(1) conversions and their failing twins
            add([_mk("box", n), {"op": "into_boxed_slice", "recv": [1]}], {"op": "into_boxed_slice", "n": n}, ety)
            add([_mk("box", n), {"op": "into_vec", "recv": [1]}], {"op": "into_vec", "n": n}, ety)
            add([_mk("box", n), {"op": "box_into_iter", "recv": [1]}], {"op": "box_into_iter", "n": n}, ety)
            add([_mk("box", n), {"op": "box_into_iter", "recv": [1]}, {"op": "release", "h": 2}], {"op": "box_into_iter+drop", "n": n}, ety)
            add([_mk("box", n), {"op": "unbox", "recv": [1]}], {"op": "unbox", "n": n}, ety)
            add([_mk("arr", n), {"op": "box_new", "recv": [1]}], {"op": "box_new", "n": n}, ety)
            add([_mk("arr", n), {"op": "vec_from_arr", "recv": [1]}], {"op": "vec_from_arr", "n": n}, ety)
            add([_mk("arr", n), {"op": "bslice_from_arr", "recv": [1]}], {"op": "bslice_from_arr", "n": n}, ety)
            for l in sorted({0, max(n - 1, 0), n, n + 1}):
                add([_mk("bslice", l), {"op": "try_from_boxed_slice", "recv": [1], "arg": n}], {"op": "try_from_boxed_slice", "n": n, "l": l}, ety)
                add([_mk("bslice", l), {"op": "arr_try_from_bslice", "recv": [1], "arg": n}], {"op": "arr_try_from_bslice", "n": n, "l": l}, ety)
                for cap in (0, 1, 2):
                    add([{"op": "mk", "n": l, "kind": "vec", "cap": cap}, {"op": "try_from_vec", "recv": [1], "arg": n}], {"op": "try_from_vec", "n": n, "l": l, "spare": cap}, ety)
                    add([{"op": "mk", "n": l, "kind": "vec", "cap": cap}, {"op": "arr_try_from_vec", "recv": [1], "arg": n}], {"op": "arr_try_from_vec", "n": n, "l": l, "spare": cap}, ety)
            # functional operations on boxes
            pas = [-1] + (list(range(n)) if panics and n <= 3 else ([0, n - 1] if panics and n else []))
            for pa in pas:
                add([_mk("box", n), {"op": "map", "recv": [1], "form": ["own"], "panic_at": pa}], {"op": "box_map", "n": n, "panic_at": pa}, ety)
                add([_mk("box", n), {"op": "fold", "recv": [1], "form": ["own"], "panic_at": pa}], {"op": "box_fold", "n": n, "panic_at": pa}, ety)
                add([_mk("box", n), _mk("box", n), {"op": "zip", "recv": [1, 2], "form": ["own", "own"], "panic_at": pa}], {"op": "box_zip", "n": n, "panic_at": pa}, ety)
            add([_mk("box", n), {"op": "clone", "recv": [1], "form": ["ref"]}], {"op": "box_clone", "n": n}, ety)
            if panics and ety == "tk":
                for cp in range(1, min(n, 3) + 1):
                    s = {"case": "box_clone", "prop": prop, "ety": ety, "alloc": True, "fuse_clone": [cp],
                         "steps": [_mk("box", n), {"op": "clone", "recv": [1], "form": ["ref"]}], "d": {"op": "box_clone", "n": n, "cpan": cp, "ety": ety}}
                    out.append(s)
    return out


def alloc_failure_scenarios(c, binary, scns, name):
    """Second pass: for every non-panicking scenario, one copy per allocator call its last operation
    made, with that call reporting failure (runs until the process dies; classified from stderr)."""
    import copy
    path = os.path.join(c.dir, name + ".trace.ndjson")
    cases = vlib.split_cases(path)
    by = {s["case"]: s for s in scns}
    out = []
    for cname, lines in cases:
        s = by.get(cname)
        if s is None or any(st.get("panic_at", -1) >= 0 for st in s["steps"]) or s.get("fuse_clone") or "source_panics_at" in s["d"]:
            continue
        # allocator calls inside the last call bracket
        idx = [i for i, l in enumerate(lines) if l.startswith('{"ev":"call"')]
        if not idx:
            continue
        seg = lines[idx[-1]:]
        k = 0
        for l in seg:
            if l.startswith('{"ev":"ret"') or l.startswith('{"ev":"unwound"'):
                break
            if l.startswith('{"ev":"alloc"') or l.startswith('{"ev":"realloc"'):
                k += 1
        for j in range(1, k + 1):
            t = copy.deepcopy(s)
            t["case"] = s["d"]["op"] + "-fail"
            t["steps"][-1]["fail_at"] = j
            t["d"] = dict(s["d"], fail_at=j)
            out.append(t)
    return out


# (Box::clone of a large array is std's `Box::new((**self).clone())` and is not among the constructors
#  the property names; it overflows a small stack in debug builds by design of std, so it is not demanded.)
BIG_OPS = ["default_boxed", "generate", "box_arr_repeat", "boxed_from_iter", "try_boxed_from_iter", "try_from_vec", "boxed_map"]
BIG_SHAPES = ["1m_u64", "256x16k", "64x16k", "32x16k"]


@check("C15")
def c15(tier, seed):
    c = Check("C15", tier, seed)
    binary = vlib.build_harness()
    r = c.mc("MC_Heap", "MC_Heap")
    lens = [0, 1, 2, 3, 4, 8] if tier == "quick" else [0, 1, 2, 3, 4, 8, 16, 97, 1024]
    scns = [s for s in alloc_scenarios(lens, ["tk", "zst", "plain"], "C15", panics=False)
            if s["d"]["op"] not in ("box_map", "box_fold", "box_zip", "box_clone")]
    c.cov["bounds"] = {"N": lens, "source lengths": "0, N-1, N, N+1", "vec capacity": "len and len+2"}
    c.conform(binary, scns, "conversions")
    c.conform(binary, [s for s in big_bytes_scripts([1024] if tier == "quick" else [97, 1024], "C15") if s.get("alloc")], "big-bytes")
    big = [{"case": "big", "prop": "C15", "d": {"op": op, "shape": sh}} for op in BIG_OPS for sh in BIG_SHAPES]
    big.append({"case": "big", "prop": "C15", "d": {"op": "box_arr_list", "shape": "32x16k"}})
    c.conform(binary, big, "big-on-small-stack", sub="big")
    c.assumptions.append("O(1) rule: no allocator event between call and ret and the same block id afterwards, measured by the harness's recording global allocator")
    return c.finish()


@check("C16")
def c16(tier, seed):
    c = Check("C16", tier, seed)
    binary = vlib.build_harness()
    r = c.mc("MC_Heap", "MC_Heap")
    lens = [0, 1, 2, 3] if tier == "quick" else [0, 1, 2, 3, 4, 8]
    scns = alloc_scenarios(lens, ["tk", "zst", "plain"], "C16", panics=True)
    c.conform(binary, scns, "ledger", nontrivial=lambda s: True)
    # the allocator ledger over multi-MiB blocks (a layout chosen by size must still be the layout the block is freed with)
    c.conform(binary, [{"case": "big", "prop": "C16", "d": {"op": op, "shape": sh, "rec": True}} for op in BIG_OPS for sh in ("1m_u64", "256x16k")], "ledger-large-blocks", sub="big")
    fails = alloc_failure_scenarios(c, binary, [s for s in scns if tier != "quick" or s["ety"] != "plain"], "ledger")
    c.cov["fault_points"] = len(fails)
    c.conform(binary, fails, "alloc-failure", nontrivial=lambda s: True)
    c.cov["bounds"] = {"N": lens, "faults": "a panic at every closure call; a failure at every allocator call each operation makes"}
    return c.finish()


# ---------------------------------------------------------------------------------------------
# C17 serde
# ---------------------------------------------------------------------------------------------
BORROWED_DE = r"""
// elements that BORROW from the input (zero-copy): deserialising `[T; N]`-like data must work for them as it does
// for owned elements - T: Deserialize<'de>, not DeserializeOwned
use generic_array::typenum::{U0, U2, U3};
use generic_array::GenericArray;
fn main() {
    let text = String::from("[\"ab\",\"cd\",\"ef\"]");
    let a: GenericArray<&str, U3> = serde_json::from_str(&text).unwrap();
    let lo = text.as_ptr() as usize;
    let zero_copy = a.iter().all(|s| { let p = s.as_ptr() as usize; p >= lo && p + s.len() <= lo + text.len() });
    let wrong: Result<GenericArray<&str, U2>, _> = serde_json::from_str(&text);
    let empty: GenericArray<&str, U0> = serde_json::from_str("[]").unwrap();
    let bytes = bincode::serialize(&(&b"xy"[..], &b"z"[..])).unwrap();
    let b: GenericArray<&[u8], U2> = bincode::deserialize(&bytes).unwrap();
    println!("{{\"ev\":\"de_borrowed\",\"items\":{:?},\"zero_copy\":{},\"wrong_len_rejected\":{},\"empty_len\":{},\"bin\":{:?}}}",
             a.as_slice(), zero_copy, wrong.is_err(), empty.len(), [b[0].len(), b[1].len()]);
}
"""


def borrowed_elements_program(c, binary):
    """A program deserialising arrays whose elements borrow from the input, compiled against the crate as the harness
    build produced it (serde feature on) and run; the compiler accepting it is part of the verdict."""
    import glob
    deps = os.path.join(os.path.dirname(binary), "deps")

    def lib(name):
        cands = sorted(glob.glob(os.path.join(deps, "lib%s-*.rlib" % name)), key=os.path.getmtime)
        if not cands:
            raise vlib.ToolError("no %s rlib under %s" % (name, deps))
        return cands[-1]
    pdir = os.path.join(c.dir, "borrowed")
    os.makedirs(pdir, exist_ok=True)
    src = os.path.join(pdir, "borrowed.rs")
    open(src, "w").write(BORROWED_DE)
    cmd = ["rustc", "--edition", "2021", "--crate-type", "bin", "-C", "debuginfo=0", "--cap-lints", "allow", "--out-dir", pdir, "-L", "dependency=" + deps]
    for n in ("generic_array", "serde_json", "bincode"):
        cmd += ["--extern", "%s=%s" % (n, lib(n))]
    p = vlib.sh(cmd + [src], timeout=600)
    scn = {"case": "de-borrowed", "d": {"op": "deserialize", "elements": "&str / &[u8] borrowed from the input"}, "program": BORROWED_DE}
    c._sub, c._spec = "rustc", "-"
    if p.returncode != 0:
        # (the program is fixed and compiles against the pinned crate: only a missing / unloadable crate is the machinery's fault;
        #  "implementation of `Deserialize` is not general enough" carries no error code)
        if any(code in p.stderr for code in ("E0463", "E0460", "E0461", "E0462", "E0514")) or "error" not in p.stderr:
            raise vlib.ToolError("borrowed-elements program: the compiler could not load the crates:\n" + p.stderr[-2000:])
        c.report(scn, {"line": 0, "event": "rustc", "reason": "a program deserialising arrays of borrowed elements was rejected by the compiler: " + p.stderr[-1500:], "trace": []})
        return
    q = vlib.sh([os.path.join(pdir, "borrowed")], timeout=120)
    want = '{"ev":"de_borrowed","items":["ab", "cd", "ef"],"zero_copy":true,"wrong_len_rejected":true,"empty_len":0,"bin":[2, 1]}'
    got = q.stdout.strip()
    c.cov["evaluations"] = c.cov.get("evaluations", 0) + 1
    if q.returncode != 0 or got != want:
        c.report(scn, {"line": 0, "event": got[:300], "reason": "borrowed elements: expected %s (exit 0), got exit %s" % (want, q.returncode), "trace": [q.stderr[-500:]]})
    os.remove(os.path.join(pdir, "borrowed"))


@check("C17")
def c17(tier, seed):
    c = Check("C17", tier, seed)
    binary = vlib.build_harness()
    r = c.mc("MC_Serde", "MC_Serde_q" if tier == "quick" else "MC_Serde_t")
    scns = []
    for d in dedupe(r["scenarios"]):
        mode = d["hints"][0]
        st = {"op": "deserialize", "n": d["n"], "src": "script", "script": d["script"]}
        if mode == "truthful":
            st["hints"] = "truthful"
        elif mode == "fixed":
            st["hints"] = [d["hints"][1], d["hints"][2]]
        scns.append({"case": "de-script", "prop": "C17", "ety": "tk", "steps": [st], "d": dict(d)})
        # serde's in-place entry point over an existing array (ids 1..n are the place's old elements)
        scns.append({"case": "de-script-inplace", "prop": "C17", "ety": "tk", "noanon": True,
                     "steps": [_mk("arr", d["n"]), dict(st, op="deserialize_in_place", recv=[1])], "d": dict(d, in_place=True)})
        # the same source presented as a binary (not human-readable) format: the contract does not mention the flag
        scns.append({"case": "de-script-bin", "prop": "C17", "ety": "tk", "steps": [dict(st, hr=False)], "d": dict(d, human_readable=False)})
    # scripted sources at boundary / large N: counts N-1 .. N+2, the hint kinds, an element error at the first,
    # a middle and the last index
    for n in ([17, 33, 97] if tier == "quick" else [16, 17, 32, 33, 64, 65, 97, 1024]):
        for cnt in (n - 1, n, n + 1, n + 2):
            for hints in (None, "truthful", [n, n], [n - 1, n - 1], [n + 1, n + 1], [n, 0]):
                for hr in (True, False):
                    st = {"op": "deserialize", "n": n, "src": "script", "script": [1] * cnt, "hr": hr}
                    if hints is not None:
                        st["hints"] = hints
                    scns.append({"case": "de-script-large", "prop": "C17", "ety": "tk", "steps": [st], "d": {"op": "deserialize", "n": n, "items": cnt, "hints": hints, "human_readable": hr}})
        for bad in (0, n // 2, n - 1):
            st = {"op": "deserialize", "n": n, "src": "script", "script": [1] * bad + [3] + [1] * (n - bad - 1)}
            scns.append({"case": "de-script-large", "prop": "C17", "ety": "tk", "steps": [st], "d": {"op": "deserialize", "n": n, "error_at": bad}})
    lens = [0, 1, 2, 3, 4, 8] if tier == "quick" else [0, 1, 2, 3, 4, 8, 12, 16, 33, 97]
    for n in lens:
        # serialisation: call sequence and real formats; then round trips through real formats
        scns.append({"case": "ser", "prop": "C17", "ety": "tk", "steps": [_mk("arr", n), {"op": "serialize", "recv": [1]}], "d": {"op": "serialize", "n": n}})
        for src in ("json", "value", "bincode"):
            for l in sorted({0, max(n - 1, 0), n, n + 1, n + 2}):
                if src == "bincode" and l > n:
                    continue  # no framing: trailing bytes are not elements of the tuple
                bads = [-1] + (list(range(min(l, n + 1))) if src != "bincode" and n <= 4 else ([0, l - 1] if src != "bincode" and l else []))
                for b in sorted(set(bads)):
                    scns.append({"case": "de-" + src, "prop": "C17", "ety": "tk", "steps": [{"op": "deserialize", "n": n, "src": src, "l": l, "bad_at": b}],
                                 "d": {"op": "deserialize", "src": src, "n": n, "l": l, "bad_at": b}})
    c.cov["exhaustive"] = True
    c.cov["bounds"] = {"model": "N in 0..%d, every 0/1 script of length <= N+2, an element error at every index, 14 hint modes" % (2 if tier == "quick" else 4), "real formats": "serde_json, serde_json::Value, bincode; N in %s" % lens}
    c.conform(binary, with_etys(scns, ["tk", "zst", "plain", "plz"]), "serde")
    borrowed_elements_program(c, binary)
    c.conform(binary, [{"case": "big", "prop": "C17", "d": {"op": "bigserde", "shape": s}} for s in ("4097", "8192")], "above-4096", sub="big")
    c.assumptions.append("outside the claim (and accepted either way): a SeqAccess that reports 0 elements left while still holding elements")
    return c.finish()


# ---------------------------------------------------------------------------------------------
# binding self-test: the trace specification must reject corrupted traces; NEG models must fail
# ---------------------------------------------------------------------------------------------
def selftest():
    binary = vlib.build_harness()
    d = os.path.join(vlib.WORK, "selftest")
    import shutil
    shutil.rmtree(d, ignore_errors=True)
    os.makedirs(d)
    scns = [iter_script({"n": 4, "f": 1, "b": 3, "op": "nth", "arg": 1, "pan": 0}, "selftest"),
            {"case": "map", "prop": "selftest", "ety": "tk", "steps": [_mk("arr", 3), {"op": "map", "recv": [1], "form": ["own"], "panic_at": 1}], "d": {}},
            {"case": "heap", "prop": "selftest", "ety": "tk", "alloc": True, "steps": [_mk("box", 2), {"op": "into_vec", "recv": [1]}], "d": {}}]
    for i, s in enumerate(scns):
        s["case"] = "%s#%d" % (s["case"], i)
    vlib.write_ndjson(os.path.join(d, "s.ndjson"), scns)
    vlib.run_driver(binary, "script", os.path.join(d, "s.ndjson"), os.path.join(d, "t.ndjson"), len(scns))
    cases = vlib.split_cases(os.path.join(d, "t.ndjson"))
    ok = True

    def verdict(cs, name):
        acc, rej, _ = vlib.validate_cases(cs, "selftest-" + name)
        return len(rej)

    if verdict(cases, "clean") != 0:
        print("SELFTEST FAIL: the unmodified traces are rejected")
        ok = False
    import copy
    # 1. corrupt one logged field: the element a `ret` hands back
    c1 = copy.deepcopy(cases)
    for i, l in enumerate(c1[0][1]):
        e = json.loads(l)
        if e["ev"] == "ret" and e["vals"]:
            e["vals"] = [e["vals"][0] + 1]
            c1[0][1][i] = json.dumps(e, separators=(",", ":")) + "\n"
            break
    # 2. delete one event: a destructor run inside the panicking map
    c2 = copy.deepcopy(cases)
    for i, l in enumerate(c2[1][1]):
        if json.loads(l)["ev"] == "drop":
            del c2[1][1][i]
            break
    # 3. corrupt an allocator event: the layout a block is released with
    c3 = copy.deepcopy(cases)
    for i, l in enumerate(c3[2][1]):
        e = json.loads(l)
        if e["ev"] == "dealloc":
            e["size"] += 8
            c3[2][1][i] = json.dumps(e, separators=(",", ":")) + "\n"
            break
    # 4. an offset in a view record
    for name, cs in (("corrupt-ret", c1), ("deleted-drop", c2), ("corrupt-dealloc", c3)):
        n = verdict(cs, name)
        print("selftest %s: %d case(s) rejected" % (name, n))
        if n != 1:
            print("SELFTEST FAIL: %s was not rejected exactly once" % name)
            ok = False
    for module, cfg in (("MC_Iter", "NEG_Iter_nth"), ("MC_Iter", "NEG_Iter_clone"), ("MC_Build", "NEG_Build_consumer"), ("MC_Build", "NEG_Build_builder"), ("MC_Collect", "NEG_Collect_noprobe"),
                        ("MC_Heap", "NEG_Heap_asfound"), ("MC_Hex", "NEG_Hex_budget")):
        try:
            vlib.run_mc(module, cfg, expect_violation=True)
            print("selftest %s/%s: invariant violated as required" % (module, cfg))
        except ToolError as e:
            print("SELFTEST FAIL: %s" % str(e)[:300])
            ok = False
    print("SELFTEST " + ("OK" if ok else "FAILED"))
    return 0 if ok else 2


# ---------------------------------------------------------------------------------------------
# model-to-model conformance: behaviours of a mechanism model, written in the trace vocabulary, are
# validated against the contract specification (no real code involved)
# ---------------------------------------------------------------------------------------------
def mech_conformance(c, module, cfg, expect_reject):
    r = vlib.run_mc(module, cfg, scn_tag="MTR")
    traces = r["scenarios"]
    cases = []
    for i, evs in enumerate(traces):
        lines = [json.dumps(e, separators=(",", ":")) + "\n" for e in evs]
        lines[0] = json.dumps(dict(evs[0], case="mech#%d" % i), separators=(",", ":")) + "\n"
        cases.append(("mech#%d" % i, lines))
    acc, rej, st = vlib.validate_cases(cases, "%s-%s" % (c.prop, cfg))
    log("[model-conformance] %s/%s: %d model behaviours, %d accepted by the contract, %d rejected" % (module, cfg, len(cases), len(acc), len(rej)))
    c.cov["mc_runs"].append({"module": module, "cfg": cfg, "model_behaviours": len(cases), "accepted_by_contract": len(acc), "rejected_by_contract": len(rej), "expected": "some rejected" if expect_reject else "all accepted"})
    c.cov["states"] += r["distinct"]
    c.cov["transitions"] += r["states"]
    if expect_reject and not rej:
        raise ToolError("the contract specification accepted every behaviour of the mutated mechanism model %s/%s" % (module, cfg))
    if not expect_reject and rej:
        raise ToolError("the contract specification rejects a behaviour of the faithful mechanism model %s/%s: %s" % (module, cfg, rej[0]["event"]))
    return len(cases), len(rej)
