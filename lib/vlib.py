"""Runner library: harness build, TLC model checking, scenario execution, TLC trace validation,
violation files, known findings, evidence.  See DESIGN.md sections 4 and 10."""
import fcntl
import hashlib
import json
import os
import re
import shutil
import subprocess
import sys
import time
from concurrent.futures import ThreadPoolExecutor

ROOT = os.path.dirname(os.path.dirname(os.path.abspath(__file__)))
WORK = os.path.join(ROOT, "work") if os.environ.get("VERIF_REPO", "/repo") == "/repo" else os.path.join(ROOT, "work", "alt-" + hashlib.sha1(os.environ["VERIF_REPO"].encode()).hexdigest()[:8])
SPEC = os.path.join(ROOT, "spec")
HARNESS = os.path.join(ROOT, "harness")
# The registered checks always use /repo.  VERIF_REPO lets the mutation-evaluation tools point the same
# checks at a scratch checkout (cargo `paths` override, separate target directory) without touching /repo.
REPO = os.environ.get("VERIF_REPO", "/repo")
ALT = REPO != "/repo"
# work/gen holds LayoutSrc.tla regenerated from /repo/src/lib.rs (it shadows the committed placeholder spec/gen)
TLA_LIB = ":".join([os.path.join(WORK, "gen"), SPEC, os.path.join(SPEC, "mech"), os.path.join(SPEC, "mc"), os.path.join(SPEC, "trace"), os.path.join(SPEC, "gen")])


class ToolError(Exception):
    """The machinery itself failed (build error, TLC error, timeout): exit 2, never a verdict."""


def log(*a):
    print(*a, file=sys.stderr, flush=True)


def sh(cmd, timeout=None, env=None, cwd=None, input=None):
    e = dict(os.environ)
    e.update({"CARGO_NET_OFFLINE": "true", "RUST_BACKTRACE": "0"})
    if env:
        e.update(env)
    try:
        p = subprocess.run(cmd, cwd=cwd, env=e, timeout=timeout, input=input, stdout=subprocess.PIPE, stderr=subprocess.PIPE, text=True, errors="replace")
    except subprocess.TimeoutExpired:
        raise ToolError("timeout after %ss: %s" % (timeout, " ".join(cmd)[:200]))
    return p


# ---------------------------------------------------------------------------------------------
# harness build (always from /repo's current working tree: path dependency, cargo decides)
# ---------------------------------------------------------------------------------------------
def build_harness(features=(), target="target"):
    os.makedirs(WORK, exist_ok=True)
    lock = open(os.path.join(WORK, "cargo.lock"), "w")
    fcntl.flock(lock, fcntl.LOCK_EX)
    try:
        if ALT:
            target = target + "-alt"
        cmd = ["cargo", "build", "--offline", "--target-dir", target]
        if ALT:
            cmd += ["--config", 'paths=["%s"]' % REPO]
        if features:
            cmd += ["--features", ",".join(features)]
        t0 = time.time()
        p = sh(cmd, cwd=HARNESS, timeout=1500)
        if p.returncode != 0:
            raise ToolError("harness build failed (the working tree of /repo does not compile with the harness):\n" + p.stderr[-4000:])
        log("[build] harness %s ok in %.1fs" % (",".join(features) or "default", time.time() - t0))
    finally:
        fcntl.flock(lock, fcntl.LOCK_UN)
        lock.close()
    return os.path.join(HARNESS, target, "debug", "gaharness")


def build_harness_asan():
    """Observation amplifier (thorough tiers): the same harness built with AddressSanitizer (nightly toolchain).
    Returns None if that build is not possible here; it never changes a verdict by its absence."""
    lock = open(os.path.join(WORK, "cargo.lock"), "w")
    fcntl.flock(lock, fcntl.LOCK_EX)
    try:
        target = "target-asan" + ("-alt" if ALT else "")
        cmd = ["cargo", "+nightly", "build", "--offline", "--target", "x86_64-unknown-linux-gnu", "--target-dir", target]
        if ALT:
            cmd += ["--config", 'paths=["%s"]' % REPO]
        t0 = time.time()
        p = sh(cmd, cwd=HARNESS, timeout=2400, env={"RUSTFLAGS": "-Zsanitizer=address --cfg generic_array_verif --check-cfg cfg(generic_array_verif)"})
        if p.returncode != 0:
            log("[build] ASan harness unavailable: " + p.stderr[-300:].replace("\n", " "))
            return None
        log("[build] ASan harness ok in %.1fs" % (time.time() - t0))
        return os.path.join(HARNESS, target, "x86_64-unknown-linux-gnu", "debug", "gaharness")
    finally:
        fcntl.flock(lock, fcntl.LOCK_UN)
        lock.close()


# ---------------------------------------------------------------------------------------------
# TLC
# ---------------------------------------------------------------------------------------------
_metaseq = [0]


def _metadir(tag):
    _metaseq[0] += 1
    d = os.path.join(WORK, "tlc", "%s-%d-%d" % (tag, os.getpid(), _metaseq[0]))
    os.makedirs(d, exist_ok=True)
    return d


def tlc(module_path, cfg_path, workers=1, timeout=600, env=None, java_opts="", extra=(), tag="mc", xmx="2g"):
    md = _metadir(tag)
    e = {"JAVA_TOOL_OPTIONS": "-Xss1g -Xmx%s -DTLA-Library=%s %s" % (xmx, TLA_LIB, java_opts)}
    if env:
        e.update(env)
    cmd = ["tlc", "-workers", str(workers), "-metadir", md, "-cleanup", "-noGenerateSpecTE", "-config", cfg_path] + list(extra) + [module_path]
    try:
        p = sh(cmd, timeout=timeout, env=e, cwd=os.path.dirname(module_path))
    finally:
        shutil.rmtree(md, ignore_errors=True)
    return p.returncode, p.stdout + p.stderr


_STATES_RE = re.compile(r"(\d+) states generated, (\d+) distinct states found")


def parse_states(out):
    m = None
    for m in _STATES_RE.finditer(out):
        pass
    if not m:
        m2 = re.search(r"The number of states generated: (\d+)", out)
        if m2:
            return int(m2.group(1)), int(m2.group(1))
        return 0, 0
    return int(m.group(1)), int(m.group(2))


def parse_scn(out, tag="SCN"):
    """Lines  <<"SCN", "....json...">>  printed by PrintT(<<"SCN", ToJson(..)>>)."""
    res = []
    pre = '<<"%s", ' % tag
    for line in out.splitlines():
        line = line.strip()
        if line.startswith(pre) and line.endswith(">>"):
            lit = line[len(pre):-2].strip()
            try:
                res.append(json.loads(json.loads(lit)))
            except Exception:
                raise ToolError("cannot parse scenario line: " + line[:300])
    return res


def run_mc(module, cfg=None, workers=4, timeout=900, expect_violation=False, scn_tag="SCN", env=None, coverage=False, xmx="4g", extra=()):
    """Exhaustive TLC run of spec/mc/<module>.tla.  Returns dict(states, distinct, scenarios, out).
    A violated invariant is a ToolError unless expect_violation (NEG configs)."""
    mpath = os.path.join(SPEC, "mc", module + ".tla")
    cpath = os.path.join(SPEC, "mc", (cfg or module) + ".cfg")
    ex = list(extra)
    if coverage:
        ex += ["-coverage", "1"]
    t0 = time.time()
    rc, out = tlc(mpath, cpath, workers=workers, timeout=timeout, env=env, extra=ex, tag=module, xmx=xmx)
    gen, dist = parse_states(out)
    violated = ("is violated" in out) or ("Error:" in out and "Invariant" in out)
    err = "Error:" in out
    log("[mc] %s/%s: %d generated, %d distinct, %.1fs%s" % (module, cfg or module, gen, dist, time.time() - t0, " VIOLATED" if violated else ""))
    if expect_violation:
        if not violated:
            raise ToolError("NEG model %s/%s was expected to violate an invariant but did not:\n%s" % (module, cfg, out[-2000:]))
    else:
        if err or rc != 0:
            raise ToolError("model checking %s/%s failed:\n%s" % (module, cfg, out[-6000:]))
    return {"states": gen, "distinct": dist, "scenarios": parse_scn(out, scn_tag), "out": out, "violated": violated, "wall": time.time() - t0}


def parse_coverage(out):
    """action name -> (distinct, total) from -coverage 1 output (last report)."""
    cov = {}
    for m in re.finditer(r"<(\w+) line \d+, col \d+ to line \d+, col \d+ of module (\w+)>: (\d+):(\d+)", out):
        cov[m.group(1)] = (int(m.group(3)), int(m.group(4)))
    return cov


# ---------------------------------------------------------------------------------------------
# executing scenarios on the real code
# ---------------------------------------------------------------------------------------------
def write_ndjson(path, rows):
    with open(path, "w") as f:
        for r in rows:
            f.write(json.dumps(r, separators=(",", ":")) + "\n")


def run_driver(binary, sub, scn_path, trace_path, n_cases, timeout=900, env=None, args=()):
    """Runs the harness over a scenario file.  A process death inside a case is data: the case
    is re-run alone with per-event flushing, an `exit` event is appended, and the run resumes
    with the next case."""
    parts = []
    start = 0
    crashed = []
    hangs = 0
    while start < n_cases:
        part = "%s.part%d" % (trace_path, len(parts))
        p = sh([binary, sub, scn_path, part, "--from", str(start)] + list(args), timeout=timeout, env=env)
        parts.append(part)
        if "HARNESS" in p.stderr:
            raise ToolError("harness error:\n" + p.stderr[-3000:])
        if p.returncode == 0:
            break
        done, partial = _scan_part(part)
        if not partial:
            # the process died between cases (e.g. heap corruption detected later): attribute it to the
            # last case that ran
            cls = classify_death(p.returncode, p.stderr)
            if done == 0:
                raise ToolError("harness died before the first case (rc=%s):\n%s" % (p.returncode, p.stderr[-3000:]))
            with open(part, "a") as f:
                f.write(json.dumps({"ev": "exit", "rc": p.returncode, "class": cls, "stderr": p.stderr[-300:]}) + "\n")
            crashed.append(start + done - 1)
            start = start + done
            continue
        last = start + done
        # drop the incomplete case from this part, re-run it alone flushing every event
        _truncate_to_last_case_start(part)
        solo = "%s.solo%d" % (trace_path, last)
        e2 = dict(env or {})
        e2["GAH_FLUSH"] = "1"
        q = sh([binary, sub, scn_path, solo, "--from", str(last), "--count", "1"] + list(args), timeout=timeout, env=e2)
        cls = classify_death(q.returncode, q.stderr)
        if q.returncode == 0:
            cls = "died-in-batch-only:" + classify_death(p.returncode, p.stderr)
        with open(solo, "a") as f:
            f.write(json.dumps({"ev": "exit", "rc": q.returncode if q.returncode else p.returncode, "class": cls, "stderr": (q.stderr if q.returncode else p.stderr)[-300:]}) + "\n")
        parts.append(solo)
        crashed.append(last)
        start = last + 1
        if cls == "hang":
            hangs += 1
            if hangs >= 3:
                # every further hang costs two time limits: three are enough for a verdict
                log("[driver] three operations did not return; the remaining %d scenarios of this batch are not run" % (n_cases - start))
                break
    with open(trace_path, "w") as out:
        for p_ in parts:
            if os.path.exists(p_):
                with open(p_) as f:
                    shutil.copyfileobj(f, out)
                os.remove(p_)
    return crashed


def classify_death(rc, stderr):
    if "@hang" in stderr:
        return "hang"
    if "memory allocation of" in stderr and "failed" in stderr:
        return "alloc_error"
    if "null pointer dereference" in stderr:
        return "null_deref"
    if "stack overflow" in stderr:
        return "stack_overflow"
    if "panic in a function that cannot unwind" in stderr or "panicked while" in stderr:
        return "abort_double_panic"
    if "unsafe precondition" in stderr:
        return "ub_check"
    if rc is not None and rc < 0:
        return "signal%d" % (-rc)
    return "exit%s" % rc


def _scan_part(path):
    """-> (number of complete cases, whether an incomplete case follows)"""
    done, open_ = 0, False
    if os.path.exists(path):
        with open(path) as f:
            for l in f:
                if l.startswith('{"ev":"case_start"'):
                    open_ = True
                elif l.startswith('{"ev":"case_end"'):
                    done += 1
                    open_ = False
    return done, open_


def _truncate_to_last_case_start(path):
    if not os.path.exists(path):
        return
    with open(path) as f:
        lines = f.readlines()
    last = None
    for i, l in enumerate(lines):
        if l.startswith('{"ev":"case_start"'):
            last = i
    if last is not None:
        # keep only complete cases
        if not (lines and lines[-1].startswith('{"ev":"case_end"')):
            lines = lines[:last]
    with open(path, "w") as f:
        f.writelines(lines)


# ---------------------------------------------------------------------------------------------
# trace validation
# ---------------------------------------------------------------------------------------------
def split_cases(trace_path):
    """-> list of (case_name, [lines])"""
    cases = []
    cur = None
    with open(trace_path) as f:
        for line in f:
            if not line.strip():
                continue
            if line.startswith('{"ev":"case_start"'):
                cur = [json.loads(line).get("case"), [line]]
                cases.append(cur)
            elif cur is not None:
                cur[1].append(line)
    return cases


MAX_REJECTS_PER_CHUNK = 4
_REJ_RE = re.compile(r'<<"REJECT", (\d+), ')
_L_RE = re.compile(r"/\\ l = (\d+)")


def _validate_once(lines, tag, spec="GATrace"):
    d = _metadir(tag)
    tf = os.path.join(d, "trace.ndjson")
    with open(tf, "w") as f:
        f.writelines(lines)
    mpath = os.path.join(SPEC, "trace", spec + ".tla")
    cpath = os.path.join(SPEC, "trace", spec + ".cfg")
    try:
        rc, out = tlc(mpath, cpath, workers=1, timeout=900, env={"TRACE": tf}, java_opts="-Dtlc2.tool.queue.IStateQueue=StateDeque", tag=tag + "v", xmx="2g")
    finally:
        shutil.rmtree(d, ignore_errors=True)
    m = _REJ_RE.search(out)
    if m:
        return ("reject", int(m.group(1)), "no action of the specification explains this event")
    if "is violated" in out:
        ls = _L_RE.findall(out)
        inv = re.search(r"Invariant (\w+) is violated", out)
        # the violating state was reached by consuming line l-1
        return ("reject", int(ls[-1]) - 1 if ls else 1, "invariant %s violated after this event" % (inv.group(1) if inv else "?"))
    if "Error:" in out or rc != 0:
        if "Postcondition" not in out:
            os.makedirs(os.path.join(WORK, "tlc_errors"), exist_ok=True)
            ef = os.path.join(WORK, "tlc_errors", tag + ".log")
            open(ef, "w").write(out)
            heads = [l for l in out.splitlines() if ("rror" in l or "xception" in l or "overflow" in l.lower())][:12]
            raise ToolError("TLC failed during trace validation (full output: %s):\n%s\n...\n%s" % (ef, "\n".join(h[:400] for h in heads), out[-1500:]))
    gen, dist = parse_states(out)
    if dist - 1 != len(lines):
        # diameter check is done by the postcondition; this is a belt-and-braces check
        if "REJECT" not in out and dist - 1 < len(lines):
            raise ToolError("trace validation ended early without a verdict:\n" + out[-3000:])
    return ("accept", dist, "")


def validate_cases(cases, tag, chunk_events=6000, par=6, spec="GATrace"):
    """Validates cases (list of (name, lines)).  Returns (accepted_names, rejects) where rejects is a
    list of dict(case, line_no_in_case, event, reason).  Every rejected case is isolated and the rest
    of its chunk re-validated, so all violating cases of a run are reported."""
    chunks = []
    cur, size = [], 0
    for c in cases:
        cur.append(c)
        size += len(c[1])
        if size >= chunk_events:
            chunks.append(cur)
            cur, size = [], 0
    if cur:
        chunks.append(cur)
    accepted, rejects = [], []
    states = [0]
    skipped = [0]

    def work(idx_chunk):
        idx, chunk = idx_chunk
        acc, rej = [], []
        todo = list(chunk)
        rounds = 0
        while todo:
            rounds += 1
            lines = [l for c in todo for l in c[1]]
            verdict, pos, why = _validate_once(lines, "%s-%d" % (tag, idx), spec)
            if verdict == "accept":
                acc += [c[0] for c in todo]
                states[0] += pos
                break
            # locate the case containing line `pos` (1-based)
            k = pos
            j = 0
            for j, c in enumerate(todo):
                if k <= len(c[1]):
                    break
                k -= len(c[1])
            bad = todo[j]
            ev = bad[1][min(k, len(bad[1])) - 1].strip()
            rej.append({"case": bad[0], "line": k, "event": ev, "reason": why, "trace": bad[1]})
            acc += [c[0] for c in todo[:j]]
            todo = todo[j + 1:]
            if len(rej) >= MAX_REJECTS_PER_CHUNK:
                skipped[0] += len(todo)
                break
        return acc, rej

    with ThreadPoolExecutor(max_workers=par) as ex:
        for acc, rej in ex.map(work, list(enumerate(chunks))):
            accepted += acc
            rejects += rej
    if skipped[0]:
        log("[validate] %d cases left unvalidated after %d rejections in their chunk" % (skipped[0], MAX_REJECTS_PER_CHUNK))
    return accepted, rejects, states[0]


# ---------------------------------------------------------------------------------------------
# findings, violations, evidence
# ---------------------------------------------------------------------------------------------
def load_findings():
    p = os.path.join(ROOT, "known_findings.json")
    if not os.path.exists(p):
        return []
    return json.load(open(p)).get("findings", [])


def match_finding(prop, scn, reject, findings):
    """A finding of status 'known' matches on property + every key of its `match` object against the
    scenario descriptor (scn['d']) -- never on the property alone."""
    d = dict(scn.get("d", {}))
    for f in findings:
        if f.get("status") != "known" or f.get("property") != prop:
            continue
        m = f.get("match", {})
        if not m:
            continue
        ok = True
        for k, v in m.items():
            dv = d.get(k)
            if isinstance(v, list):
                ok = ok and dv in v
            else:
                ok = ok and dv == v
        if ok:
            return f
    return None


def refresh_layout_src():
    """spec/Layout.tla reads the storage structs' field lists / repr attributes from LayoutSrc.tla, which is
    regenerated from the current /repo/src/lib.rs; if the source cannot be parsed the placeholder is used
    (only C01/C19 depend on it and they call the parser themselves)."""
    try:
        import srcparse
        srcparse.write_layout_src(srcparse.parse_layout_src(REPO), os.path.join(WORK, "gen", "LayoutSrc.tla"))
    except Exception:
        try:
            os.remove(os.path.join(WORK, "gen", "LayoutSrc.tla"))
        except OSError:
            pass


class Check:
    def __init__(self, prop, tier, seed, level="model_checking"):
        self.prop, self.tier, self.seed, self.level = prop, tier, seed, level
        self.t0 = time.time()
        self.dir = os.path.join(WORK, prop)
        shutil.rmtree(self.dir, ignore_errors=True)
        os.makedirs(self.dir, exist_ok=True)
        self.vdir = os.path.join(WORK, "violations")
        os.makedirs(self.vdir, exist_ok=True)
        self.cov = {"states": 0, "transitions": 0, "traces_validated_against_impl": 0, "samples": [], "mc_runs": [], "trace_events": 0,
                    "trace_states": 0, "evaluations": 0, "distinct_nontrivial": 0, "exhaustive": False, "neg_models_violated": 0}
        self.assumptions = []
        self.violations = []
        self.known = []
        self.findings = load_findings()
        self.distinct = set()
        refresh_layout_src()

    # -- model checking stage
    def mc(self, module, cfg=None, **kw):
        r = run_mc(module, cfg, **kw)
        self.cov["states"] += r["distinct"]
        self.cov["transitions"] += r["states"]
        self.cov["mc_runs"].append({"module": module, "cfg": cfg or module, "generated": r["states"], "distinct": r["distinct"], "scenarios": len(r["scenarios"]), "wall_s": round(r["wall"], 1)})
        return r

    def neg(self, module, cfg, **kw):
        r = run_mc(module, cfg, expect_violation=True, **kw)
        self.cov["neg_models_violated"] += 1
        self.cov["mc_runs"].append({"module": module, "cfg": cfg, "neg": True, "violated": True})
        return r

    # -- run scenarios on the real code and validate the traces
    def conform(self, binary, scenarios, name, sub="script", env=None, args=(), nontrivial=None, spec="GATrace"):
        if not scenarios:
            return
        for i, s in enumerate(scenarios):
            s.setdefault("case", "%s-%d" % (name, i))
            s["case"] = "%s#%d" % (s["case"], i) if not s["case"].endswith("#%d" % i) else s["case"]
            s.setdefault("prop", self.prop)
        self._sub, self._spec = sub, spec
        scn_path = os.path.join(self.dir, name + ".scn.ndjson")
        trace_path = os.path.join(self.dir, name + ".trace.ndjson")
        write_ndjson(scn_path, scenarios)
        t0 = time.time()
        crashed = run_driver(binary, sub, scn_path, trace_path, len(scenarios), env=env, args=args)
        t1 = time.time()
        cases = split_cases(trace_path)
        by_name = {s["case"]: s for s in scenarios}
        if len(cases) != len(scenarios):
            raise ToolError("%s: %d scenarios but %d cases in the trace" % (name, len(scenarios), len(cases)))
        nev = sum(len(c[1]) for c in cases)
        acc, rej, st = validate_cases(cases, self.prop + "-" + name, spec=spec)
        log("[conform] %s: %d cases, %d events, run %.1fs, validate %.1fs, %d rejected%s" % (name, len(cases), nev, t1 - t0, time.time() - t1, len(rej), (", %d crashed" % len(crashed)) if crashed else ""))
        self.cov["traces_validated_against_impl"] += len(acc)
        self.cov["trace_events"] += nev
        self.cov["trace_states"] += st
        self.cov["evaluations"] += len(cases)
        for s in scenarios:
            key = json.dumps(s.get("d", s.get("steps")), sort_keys=True)
            if nontrivial is None or nontrivial(s):
                self.distinct.add(key)
        if len(self.cov["samples"]) < 6 and cases:
            for c in (cases[0], cases[len(cases) // 2], cases[-1]):
                self.cov["samples"].append({"scenario": {k: v for k, v in by_name[c[0]].items() if k != "prop"}, "trace_head": [json.loads(l) for l in c[1][1:7]]})
        for r in rej:
            scn = by_name.get(r["case"], {})
            self.report(scn, r)

    def asan_pass(self, name, sub="script"):
        """Re-executes the scenarios of an earlier conform() stage on the AddressSanitizer build.  No new oracle:
        only a process death (an out-of-bounds or use-after-free access the value-level oracle cannot see)
        is reported, attributed to the case it happened in."""
        binary = build_harness_asan()
        if binary is None:
            self.assumptions.append("ASan amplifier unavailable in this environment (nightly -Zsanitizer build failed); verdicts unaffected")
            return
        scn_path = os.path.join(self.dir, name + ".scn.ndjson")
        scns = [json.loads(l) for l in open(scn_path)]
        trace_path = os.path.join(self.dir, name + ".asan.trace.ndjson")
        t0 = time.time()
        crashed = run_driver(binary, sub, scn_path, trace_path, len(scns), env={"ASAN_OPTIONS": "detect_leaks=0:abort_on_error=1:halt_on_error=1"}, timeout=2400)
        log("[asan] %s: %d cases re-executed under AddressSanitizer in %.1fs, %d died" % (name, len(scns), time.time() - t0, len(crashed)))
        self.cov["asan_cases"] = self.cov.get("asan_cases", 0) + len(scns)
        cases = split_cases(trace_path)
        for i in crashed:
            lines = cases[i][1] if i < len(cases) else []
            last = lines[-1].strip() if lines else ""
            self._sub, self._spec = sub, "GATrace"
            self.report(scns[i], {"line": len(lines), "event": last, "reason": "the process died under AddressSanitizer while executing this case", "trace": lines})
        try:
            os.remove(trace_path)
        except OSError:
            pass

    def report(self, scn, r):
        f = match_finding(self.prop, scn, r, self.findings)
        if f:
            self.known.append((f, scn))
            return
        h = hashlib.sha1(json.dumps(scn, sort_keys=True).encode()).hexdigest()[:12]
        path = os.path.join(self.vdir, "%s-%s.json" % (self.prop, h))
        json.dump({"property": self.prop, "sub": getattr(self, "_sub", "script"), "spec": getattr(self, "_spec", "GATrace"), "scenario": scn, "rejected_at_line": r.get("line"), "event": r.get("event"), "reason": r.get("reason"),
                   "trace": [l.strip() for l in r.get("trace", [])]}, open(path, "w"), indent=1)
        self.violations.append(path)

    def finish(self):
        self.cov["distinct_nontrivial"] = len(self.distinct)
        seen = set()
        for f, scn in self.known:
            if f["id"] not in seen:
                seen.add(f["id"])
                print("KNOWN-FINDING: property=%s %s" % (self.prop, f["what"]))
        for v in self.violations[:25]:
            print("VIOLATION property=%s replay=%s" % (self.prop, v))
        if len(self.violations) > 25:
            print("(%d more violations not listed)" % (len(self.violations) - 25))
        cov = dict(self.cov)
        if not cov["samples"]:
            cov["samples"] = ["(no case executed)"]
        cov["known_findings_hit"] = sorted(seen)
        ev = {"property_id": self.prop, "tier": self.tier, "seed": self.seed, "level": self.level, "coverage": cov,
              "assumptions": self.assumptions, "wall_s": round(time.time() - self.t0, 2), "violations": len(self.violations)}
        # evidence/ only ever describes runs against /repo itself; mutation-evaluation runs (VERIF_REPO) keep theirs apart
        edir = os.path.join(ROOT, "evidence") if not ALT else os.path.join(WORK, "evidence")
        os.makedirs(edir, exist_ok=True)
        if "rule" not in cov:
            cov["rule"] = "cases = scenarios emitted by the model run(s) plus the seeded drivers' cases, each executed on the real crate and validated by TLC; distinct by scenario descriptor; non-trivial = the case makes at least one call into the crate"
        tmp = os.path.join(edir, self.prop + ".json.tmp")
        json.dump(ev, open(tmp, "w"), indent=1)
        os.replace(tmp, os.path.join(edir, self.prop + ".json"))
        log("[done] %s %s: %d violations, %d known, %.1fs" % (self.prop, self.tier, len(self.violations), len(seen), time.time() - self.t0))
        return 1 if self.violations else 0
