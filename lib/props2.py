"""Checks whose conformance side needs no ownership ledger: layout (C01), const-default / zeroize
(C19), hex (C14), comparison / hashing / Debug (C13).  Driven by the auxiliary harness crate
(harness_aux); every record is judged by TLC against Layout.tla / Hex.tla / Compare.tla."""
import fcntl
import json
import os
import random
import shutil
import time

import srcparse
import vlib
from vlib import Check, ToolError, log
from props import check, dedupe

AUX = os.path.join(vlib.ROOT, "harness_aux")


def build_aux(features=(), target="target"):
    os.makedirs(vlib.WORK, exist_ok=True)
    lock = open(os.path.join(vlib.WORK, "cargo.lock"), "w")
    fcntl.flock(lock, fcntl.LOCK_EX)
    try:
        if vlib.ALT:
            target = target + "-alt"
        cmd = ["cargo", "build", "--offline", "--target-dir", target]
        if vlib.ALT:
            cmd += ["--config", 'paths=["%s"]' % vlib.REPO]
        if features:
            cmd += ["--features", ",".join(features)]
        t0 = time.time()
        p = vlib.sh(cmd, cwd=AUX, timeout=1500)
        if p.returncode != 0:
            raise ToolError("aux harness build failed:\n" + p.stderr[-4000:])
        log("[build] aux harness %s ok in %.1fs" % (",".join(features) or "default", time.time() - t0))
    finally:
        fcntl.flock(lock, fcntl.LOCK_UN)
        lock.close()
    return os.path.join(AUX, target, "debug", "gaaux")


def run_aux(c, binary, sub, arg, name, env=None):
    """Runs an aux driver (which writes a complete trace by itself) and validates the trace."""
    trace = os.path.join(c.dir, name + ".trace.ndjson")
    t0 = time.time()
    p = vlib.sh([binary, sub, arg, trace], timeout=900, env=env)
    if p.returncode != 0:
        # a death of the driver is data: whatever was written is validated, then an exit event is appended
        if "HARNESS" in p.stderr:
            raise ToolError("aux harness error:\n" + p.stderr[-2000:])
        # (the driver's buffered writer may have been cut in the middle of a record: drop the torn line)
        data = open(trace, "rb").read() if os.path.exists(trace) else b""
        if data and not data.endswith(b"\n"):
            data = data[:data.rfind(b"\n") + 1]
            open(trace, "wb").write(data)
        with open(trace, "a") as f:
            f.write(json.dumps({"ev": "exit", "rc": p.returncode, "class": vlib.classify_death(p.returncode, p.stderr), "stderr": p.stderr[-300:]}) + "\n")
    cases = vlib.split_cases(trace)
    # long cases are split into slices of <= 2500 records so that one bad record does not hide the rest
    parts = []
    for cname, lines in cases:
        body = [l for l in lines[1:] if not l.startswith('{"ev":"case_end"')]
        for i in range(0, max(len(body), 1), 2500):
            parts.append(("%s/%d" % (cname, i // 2500), [lines[0]] + body[i:i + 2500] + ['{"ev":"case_end"}\n']))
    nev = sum(len(x[1]) for x in parts)
    acc, rej, st = vlib.validate_cases(parts, c.prop + "-" + name, chunk_events=3000)
    log("[conform] %s: %d records, run %.1fs, validate %.1fs, %d rejected" % (name, nev, time.time() - t0, time.time() - t0, len(rej)))
    accepted = set(acc)
    c.cov["traces_validated_against_impl"] += sum(len(x[1]) - 2 for x in parts if x[0] in accepted)   # records judged and accepted
    c.cov["trace_events"] += nev
    c.cov["trace_states"] += st
    c.cov["evaluations"] += nev
    for cname, lines in parts[:1] + parts[-1:]:
        if len(c.cov["samples"]) < 8:
            c.cov["samples"].append({"case": cname, "records": [json.loads(l) for l in lines[1:4]]})
    for x in parts:
        for l in x[1][1:-1]:
            c.distinct.add(l[:200])
    for r in rej:
        ev = json.loads(r["event"]) if r["event"].startswith("{") else {"ev": "?"}
        scn = {"case": r["case"], "sub": sub, "arg": arg, "d": {k: ev.get(k) for k in ("ev", "ty", "n", "api", "prec", "upper", "pat", "ety", "a", "b", "fmt") if k in ev}}
        r2 = dict(r)
        r2["trace"] = [r["trace"][0]] + r["trace"][max(1, r["line"] - 3):r["line"] + 1]
        c._sub, c._spec = "aux:" + sub, "GATrace"
        c.report(scn, r2)


def apalache_induction(c, layouts, par=4):
    """Unbounded depth: for each element layout (S, A) the layout invariant is inductive over the digit
    recursion (spec/apalache/LayoutInd.tla), base case and step, discharged by Apalache."""
    from concurrent.futures import ThreadPoolExecutor
    src = open(os.path.join(vlib.SPEC, "apalache", "LayoutInd.tla")).read()
    root = os.path.join(c.dir, "apalache")
    os.makedirs(root, exist_ok=True)

    def one(sa):
        s, a = sa
        d = os.path.join(root, "s%d_a%d" % (s, a))
        os.makedirs(d, exist_ok=True)
        txt = src.replace("S == 24", "S == %d" % s).replace("A == 8", "A == %d" % a)
        open(os.path.join(d, "LayoutInd.tla"), "w").write(txt)
        ok = True
        for args in (["--init=Init", "--inv=IndInv", "--length=0"], ["--init=IndInit", "--inv=StepInv", "--length=1"]):
            p = vlib.sh(["apalache-mc", "check", "--out-dir=" + os.path.join(d, "out")] + args + ["LayoutInd.tla"], cwd=d, timeout=600)
            if "The outcome is: NoError" not in p.stdout:
                ok = False
        shutil.rmtree(d, ignore_errors=True)
        return sa, ok

    with ThreadPoolExecutor(max_workers=par) as ex:
        res = list(ex.map(one, layouts))
    bad = [sa for sa, ok in res if not ok]
    c.cov["apalache_inductive_layouts"] = len(res) - len(bad)
    c.cov["mc_runs"].append({"module": "apalache/LayoutInd", "layouts": len(res), "proved_inductive": len(res) - len(bad)})
    if bad:
        raise ToolError("Apalache did not establish the inductive layout step for element layouts %s (model error: the TLC model and the real compiler agree up to depth 11)" % bad[:5])


DEFAULT_FACTS = {"mods": {"GenericArrayImplEven": {"pack": 0, "align": 0, "repr": ["C"]}, "GenericArrayImplOdd": {"pack": 0, "align": 0, "repr": ["C"]}},
                 "unknown_fields": [], "even": ["U", "U", "PhantomData"], "odd": ["U", "U", "T"], "even_repr_c": True, "odd_repr_c": True,
                 "base": "[T; 0]", "transparent": True}


def parse_or_default(c):
    """The storage declarations of src/lib.rs, or - when they have been restructured beyond what the parser knows -
    the shapes of the pinned tree (the model then says nothing about the source; the compiler records still decide)."""
    try:
        return srcparse.parse_layout_src(vlib.REPO)
    except Exception as e:
        c.assumptions.append("DESIGN WARNING: the storage structs of src/lib.rs could not be parsed (%s); the layout model was run on the shapes of the pinned tree and says nothing about this source - the compiler's observed layouts decide" % str(e)[:120])
        srcparse.write_layout_src(DEFAULT_FACTS, os.path.join(vlib.WORK, "gen", "LayoutSrc.tla"))
        return dict(DEFAULT_FACTS, source_unparsed=True)


def mc_layout(c, tier, info, cfg="MC_Layout"):
    """MC_Layout reads the storage structs' field lists and repr modifiers from the source (LayoutSrc.tla): an
    invariant violated there is a verdict about the source, not a failure of the machinery."""
    try:
        c.mc("MC_Layout", cfg + ("_q" if tier == "quick" else "_t"), workers=8, timeout=1500)
    except ToolError as e:
        msg = str(e)
        if "is violated" not in msg:
            raise
        tail = msg[msg.find("Error: Invariant"):][:1500] if "Error: Invariant" in msg else msg[-1500:]
        c._sub, c._spec = "model", "MC_Layout"
        c.report({"case": "layout-model", "d": {"source_facts": info}},
                 {"line": 0, "event": "MC_Layout over the struct declarations of src/lib.rs", "reason": "the storage recursion as declared does not have the layout of [T; N]: " + tail, "trace": []})


@check("C01")
def c01(tier, seed):
    c = Check("C01", tier, seed)
    info = parse_or_default(c)
    c.cov["source_facts"] = info
    if info.get("unknown_fields"):
        c.assumptions.append("DESIGN WARNING: storage struct fields the layout model does not know (%s) are modelled as zero-sized, align-1 markers" % ", ".join(info["unknown_fields"]))
    if not (info["even_repr_c"] and info["odd_repr_c"] and info["transparent"]):
        c.assumptions.append("DESIGN WARNING: a repr attribute is missing in src/lib.rs; the model assumes declaration order, observed layouts still decide")
    mc_layout(c, tier, info)
    binary = build_aux()
    run_aux(c, binary, "layout", tier, "layout")
    if tier != "quick" and info["even"] == ["U", "U", "PhantomData"] and info["odd"] == ["U", "U", "T"] and info["even_repr_c"] and info["odd_repr_c"] and not info.get("unknown_fields") \
            and not any(m["pack"] or m["align"] for m in info["mods"].values()):
        lattice = [(s, a) for a in (1, 2, 4, 8, 16, 32, 64) for s in (0, 1, 2, 3, 4, 5, 6, 8, 12, 16, 24, 32, 48, 64, 96, 128) if s % a == 0]
        apalache_induction(c, lattice)
        c.assumptions.append("unbounded N: the layout invariant is inductive over the digit recursion for each of the %d element layouts (Apalache, base case + step)" % len(lattice))
    c.cov["exhaustive"] = True
    c.cov["bounds"] = {"model": "every N < 2^%d x 84 element layouts (sizes 0..4096, alignments 1..4096)" % (7 if tier == "quick" else 11),
                       "compiler records": "39 element types (alignments up to 4096, over-aligned zero-sized types) x (N in 0..=64 + boundaries%s) + every larger named typenum length up to 2^62 (N*size < 2^54; all for zero-sized types)" % ("" if tier == "quick" else ", all of 0..=1024")}
    c.assumptions += ["rustc's layout algorithm is observed (size_of/align_of and real element addresses), not re-proved",
                      "lengths beyond TLC's 32-bit integers travel as base-1000 limbs and are multiplied digit-wise in the specification"]
    return c.finish()


@check("C19")
def c19(tier, seed):
    c = Check("C19", tier, seed)
    # C19 needs the slot bijection only (every element slot reached exactly once), not the native layout
    mc_layout(c, tier, parse_or_default(c), cfg="MC_LayoutSlots")
    binary = build_aux()
    run_aux(c, binary, "c19", tier, "constdefault-zeroize", env={"VERIF_SEED": str(seed)})
    c.cov["exhaustive"] = True
    c.cov["bounds"] = {"model": "slot bijection (every element slot reached exactly once by the structural traversal) for every N < 2^%d" % (7 if tier == "quick" else 11),
                       "real code": "N in 0..=17, 31..33, 63, 64, 97, 127, 128, 255, 256, 1023, 1024%s; u8, u64, [u8;3], nested array, a type with distinguishable default/zero" % ("" if tier == "quick" else ", 18..=65, 100, 341, 511, 512, 682, 1000")}
    return c.finish()


def hex_rows(tier, rng):
    rows = []
    return rows


@check("C14")
def c14(tier, seed):
    c = Check("C14", tier, seed)
    r = c.mc("MC_Hex", "MC_Hex_q" if tier == "quick" else "MC_Hex_t", workers=8, timeout=1500)
    rows = []
    for d in dedupe(r["scenarios"]):
        rows.append((d["n"], d["prec"], 1 if d["upper"] else 0, "lin"))
    rng = random.Random(seed)
    # all byte values, constant rows, random precisions on the large lengths, extra lengths beyond the model
    for up in (0, 1):
        rows += [(1, -1, up, "all"), (256, -1, up, "all"), (256, 77, up, "all"), (33, -1, up, "ff"), (33, 9, up, "zero"), (1025, -1, up, "ff"), (2049, 4097, up, "all")]
        for n in ([63, 64, 65, 255, 257, 1000, 1536, 6144, 8192, 10000] if tier == "quick" else [63, 64, 65, 255, 256, 257, 511, 512, 1000, 1536, 3072, 3073, 5000, 6144, 8192, 10000]):
            for p in sorted({-1, 0, 1, n, 2 * n - 1, 2 * n, 2 * n + 1, rng.randint(0, 2 * n), rng.randint(0, 2 * n)}):
                rows.append((n, p, up, "lin"))
        for n in ([1024, 1025, 2049] if tier == "quick" else [1023, 1024, 1025, 2047, 2048, 2049, 3000, 4096]):
            for _ in range(3 if tier == "quick" else 12):
                rows.append((n, rng.randint(0, 2 * n + 2), up, rng.choice(["lin", "all"])))
    rows = [r_ + ("",) for r_ in sorted(set(rows))]
    # the format spec's width / fill / alignment / zero / alternate flags must not add anything to the digits
    for spec in ("w", "fill", "zero", "alt"):
        for n in ([0, 1, 3, 16, 33, 1024, 1025] if tier == "quick" else [0, 1, 2, 3, 15, 16, 17, 33, 1023, 1024, 1025, 2049, 4096]):
            for p_ in sorted({-1, 0, 1, 3, n, 2 * n - 1 if n else 0, 2 * n + 1}):
                for up in (0, 1):
                    rows.append((n, p_, up, "lin", spec))
    # bounded sinks: an error reported by the sink for any piece must come back from the formatter
    for n in ([0, 1, 3, 15, 16, 33, 1024, 1025, 2049] if tier == "quick" else [0, 1, 2, 3, 15, 16, 17, 33, 1000, 1023, 1024, 1025, 2047, 2048, 2049, 3000, 4096, 5000]):
        for p_ in sorted({-1, 1, n, 2 * n + 1}):
            full = 2 * n if p_ < 0 else min(p_, 2 * n)
            caps = {0, 1, 2, 100, full - 1, full, full + 1, full - 2048, full - 2047, 2048, 2050, 4096, rng.randint(0, full + 1)}
            for cap in sorted(x for x in caps if x >= 0):
                rows.append((n, p_, rng.choice([0, 1]), "lin", "sink:%d" % cap))
    # ... and the (N, precision, capacity) cases of the error-propagation model (piece lengths of the chunk loop)
    rs = c.mc("MC_HexSink", "MC_HexSink_q" if tier == "quick" else "MC_HexSink_t", workers=4)
    for d in dedupe(rs["scenarios"]):
        rows.append((d["n"], d["prec"], (d["n"] + d["cap"]) % 2, "lin", "sink:%d" % d["cap"]))
    c.neg("MC_HexSink", "NEG_HexSink_lastwins")
    # large arrays formatted on a thread with a 256 KiB stack: the formatter's frame must not grow with N (last rows: a crash ends the driver; the
    # output is kept short by the precision; a stack overflow ends the process - an exit no action explains)
    for n in (131072, 1048576):
        for p_ in (0, 1, 64, 4097):
            for up in (0, 1):
                rows.append((n, p_, up, "lin", "smallstack"))
    scn = os.path.join(c.dir, "hex.scn")
    open(scn, "w").write("".join(("%d %d %d %s %s" % r_).rstrip() + "\n" for r_ in rows))
    c.cov["exhaustive"] = True
    c.cov["bounds"] = {"model": "N in %s with every precision 0..2N+2; N in %s with boundary precisions; both cases" % (("{0,1,2,3,7,8,15,16,17,32,33}", "{1024,1025,2049}") if tier == "quick" else ("0..17, 31..33", "{1023,1024,1025,2047,2048,2049,3000,4096}")),
                       "rows executed": len(rows)}
    run_aux(c, build_aux(), "hex", scn, "hex-fallback")
    if tier != "quick" or os.environ.get("VERIF_HEX_SIMD", "1") == "1":
        # the same rows with the optional SIMD encoder compiled in (second build, own target directory)
        run_aux(c, build_aux(features=("fasterhex",), target="target-fh"), "hex", scn, "hex-faster-hex")
    if tier != "quick":
        c.neg("MC_Hex", "NEG_Hex_budget")
    c.assumptions.append("the SIMD encoder's internals are observed, not modelled: the per-byte definition (Hex.tla) is the oracle for both feature builds")
    return c.finish()


@check("C13")
def c13(tier, seed):
    c = Check("C13", tier, seed)
    r = c.mc("MC_Compare", "MC_Compare_q" if tier == "quick" else "MC_Compare_t", workers=8, timeout=1500)
    pairs = dedupe(r["scenarios"])
    rng = random.Random(seed)
    lines = []

    def fmt(s):
        return ",".join(str(x) for x in s) if s else "-"
    for d in pairs:
        a, b = d["a"], d["b"]
        has_nan = 9 in a or 9 in b
        if has_nan:
            lines.append("f64 %s %s" % (fmt(a), fmt(b)))
        else:
            etys = ["u8", "i32", "f64", "string", "nested"]
            if tier == "quick" and len(a) >= 3:
                etys = [etys[(sum(a) + 2 * sum(b)) % 5], "f64"]
            for e in etys:
                lines.append("%s %s %s" % (e, fmt(a), fmt(b)))
    # zero-sized elements whose own Hash feeds something (inner arrays of length 0)
    for n in (0, 1, 2, 3, 5):
        z = [0] * n
        lines.append("nested0 %s %s" % (fmt(z), fmt(z)))
    # a key whose Ord (total order: -0.0 < +0.0, NaN placed) is finer than its PartialOrd (IEEE): all pairs over 4 codes
    import itertools
    for n in (1, 2, 3):
        for a in itertools.product((0, 1, 2, 9), repeat=n):
            for b in itertools.product((0, 1, 2, 9), repeat=n):
                if n < 3 or (sum(a) + 3 * sum(b)) % (5 if tier == "quick" else 1) == 0:
                    lines.append("tot %s %s" % (fmt(list(a)), fmt(list(b))))
    # zero-sized elements with a non-trivial PartialEq / PartialOrd (equal to nothing, like NaN), also nested
    for n in (0, 1, 2, 3, 4, 5, 16):
        z = [9] * n
        lines.append("znan %s %s" % (fmt(z), fmt(z)))
    for n in (5, 16, 97):
        for _ in range(6 if tier == "quick" else 60):
            a = [rng.choice([0, 1, 2, 3]) for _ in range(n)]
            b = list(a)
            for _ in range(rng.choice([0, 0, 1, 2])):
                b[rng.randrange(n)] = rng.choice([0, 1, 2, 3])
            for e in ("u8", "i32", "string", "nested"):
                lines.append("%s %s %s" % (e, fmt(a), fmt(b)))
            if rng.random() < 0.5:
                a2 = list(a)
                a2[rng.randrange(n)] = 9
                lines.append("f64 %s %s" % (fmt(a2), fmt(b)))
                lines.append("f64 %s %s" % (fmt(a2), fmt(a2)))
    scn = os.path.join(c.dir, "cmp.scn")
    open(scn, "w").write("\n".join(lines) + "\n")
    c.cov["exhaustive"] = True
    c.cov["bounds"] = {"model": "all pairs of sequences over %s for N <= %d" % (("{0,1,NaN}", 3) if tier == "quick" else ("{0,1,2,NaN}", 4)), "rows executed": len(lines),
                       "element types": "u8, i32, f64 (NaN), String, nested GenericArray<u8, U2>, zero-sized never-equal unit type (plain and nested); seeded random pairs at N = 5, 16, 97"}
    run_aux(c, build_aux(), "cmp", scn, "compare")
    c.assumptions.append("Debug: the slice's own output is the oracle under 7 flag combinations; TLA+ carries only the equality")
    return c.finish()
