#!/usr/bin/env python3
"""Rewrites the seeded-change table of DESIGN.md from seeded/*/meta.json."""
import glob, json, os, re
ROOT = os.path.dirname(os.path.dirname(os.path.abspath(__file__)))
rows = []
for f in sorted(glob.glob(os.path.join(ROOT, "seeded", "*", "meta.json"))):
    m = json.load(open(f))
    det = ", ".join("%s: %s" % (k, "caught" if v["exit"] == 1 else ("missed" if v["exit"] == 0 else "tool error")) for k, v in m["detected_by"].items())
    needs = (m.get("needs") or "").replace("\n", " ").replace("|", "/")
    summ = (m.get("summary") or "").replace("\n", " ").replace("|", "/")
    rows.append("| `%s` | %s | %s | %s | %s |" % (m["id"], m["property"], summ[:230], needs[:200], det))
table = "| seed | property | change | needs | quick checks |\n|---|---|---|---|---|\n" + "\n".join(rows)
p = os.path.join(ROOT, "DESIGN.md")
s = open(p).read()
s = re.sub(r"<!-- SEED-TABLE-BEGIN -->.*<!-- SEED-TABLE-END -->", "<!-- SEED-TABLE-BEGIN -->\n" + table + "\n<!-- SEED-TABLE-END -->", s, flags=re.S)
open(p, "w").write(s)
print(len(rows), "seeds")
