#!/usr/bin/env python3
"""Rewrites MANIFEST.json from lib/registry.py and the set of implemented checks (lib/props.py)."""
import json, os, sys
ROOT = os.path.dirname(os.path.dirname(os.path.abspath(__file__)))
sys.path.insert(0, os.path.join(ROOT, "lib"))
import props, props2, props3, registry  # noqa
m = json.load(open(os.path.join(ROOT, "MANIFEST.json")))
ids = [json.loads(l)["id"] for l in open(os.path.join(ROOT, "properties.jsonl"))]
na_reasons = getattr(registry, "NOT_APPLICABLE", {})
checks, na = [], []
for pid in ids:
    if pid in props.CHECKS and pid in registry.REG:
        r = registry.REG[pid]
        checks.append({
            "property_id": pid,
            "quick_cmd": "./check %s --tier quick" % pid,
            "thorough_cmd": "./check %s --tier thorough" % pid,
            "evidence_file": "evidence/%s.json" % pid,
            "replay_cmd_template": "./check %s --replay {path}" % pid,
            "engine": "tlc",
            "level_claimed": {"category": r["category"], "text": r["text"], "design_ref": "DESIGN.md section " + r["design_ref"]},
            "level_note": r["note"],
            "technique": r["technique"],
        })
    else:
        na.append({"property_id": pid, "reason": na_reasons.get(pid, "check not built yet (work in progress; planned in DESIGN.md section 5)")})
m["checks"] = checks
m["not_applicable"] = na
m["engines"] = [{"name": "tlc", "path": "check", "serves_properties": [c["property_id"] for c in checks],
                 "kind_free_text": "TLA+ specification (spec/) model-checked with TLC; Rust conformance harness (harness/) executes TLC-generated scenarios and seeded histories on the real crate; TLC validates the recorded traces against the specification"}]
m["notes"] = "All checks: ./check <id> --tier quick|thorough; violations are written under work/violations and can be replayed with ./check <id> --replay <file>. known_findings.json lists fixed/known defects."
json.dump(m, open(os.path.join(ROOT, "MANIFEST.json"), "w"), indent=1)
print("checks:", [c["property_id"] for c in checks])
