#!/usr/bin/env python3
# validates MANIFEST.json and all evidence files against the schemas (tooling venv: python3-vt)
import json, glob, jsonschema
jsonschema.validate(json.load(open('/verif/MANIFEST.json')), json.load(open('/root/.vp/MANIFEST.schema.json')))
for f in sorted(glob.glob('/verif/evidence/*.json')):
    jsonschema.validate(json.load(open(f)), json.load(open('/root/.vp/EVIDENCE.schema.json')))
    print('ok', f)
print('manifest ok')
