"""C12: one minimal Rust program per row of the tables of spec/Typing.tla (emitted by MC_Typing)."""

PRELUDE = """#![allow(unused, dead_code, unused_mut, unused_variables, unused_imports, unused_assignments)]
use generic_array::functional::*;
use generic_array::sequence::*;
use generic_array::typenum::*;
use generic_array::{arr, ArrayLength, ConstArrayLength, GenericArray, GenericArrayIter, IntoArrayLength};
fn touch<X>(_x: X) {}
"""


def U(n):
    return "U%d" % n


def ga(n, t="u8"):
    return "GenericArray<%s, %s>" % (t, U(n))


def dflt(name, n, t="u8", mut=False):
    return "let %s%s: %s = GenericArray::default();" % ("mut " if mut else "", name, ga(n, t))


def len_program(d):
    op, n, m, k = d["op"], d["n"], d["m"], d["k"]
    a = dflt("a", n)
    b = dflt("b", m)
    body = {
        "zip": "%s %s let _c = a.zip(b, |x, y| x.wrapping_add(y));" % (a, b),
        "eq": "%s %s let _c = a == b;" % (a, b),
        "inverted_zip": "%s %s let _c: %s = b.inverted_zip(a, |x, y| x.wrapping_add(y));" % (a, b, ga(n)),
        "inverted_zip2": "%s %s let _c: %s = b.inverted_zip2(a, |x, y| x.wrapping_add(y));" % (a, b, ga(n)),
        "inverted_zip2_ref": "%s %s let _c: %s = (&b).inverted_zip2(&a, |x, y| x.wrapping_add(*y));" % (a, b, ga(n)),
        "lt": "%s %s let _c = a < b;" % (a, b),
        "split": "%s let (_x, _y) = Split::<u8, %s>::split(a);" % (a, U(k)),
        "pop_back": "%s let (_i, _l) = a.pop_back();" % a,
        "pop_front": "%s let (_h, _t) = a.pop_front();" % a,
        "remove": "%s let (_r, _t) = a.remove(0);" % a,
        "append_ann": "%s let _b: %s = a.append(1);" % (a, ga(k)),
        "prepend_ann": "%s let _b: %s = a.prepend(1);" % (a, ga(k)),
        "pop_ann": "%s let (_b, _l): (%s, u8) = a.pop_back();" % (a, ga(k)),
        "concat_ann": "%s %s let _c: %s = a.concat(b);" % (a, b, ga(k)),
        "split_ann": "%s let (_x, _y): (%s, %s) = a.split();" % (a, ga(m), ga(k)),
        "into_array": "%s let _x: [u8; %d] = a.into_array(); %s let _y: [u8; %d] = b2.into();" % (a, k, dflt("b2", n), k),
        "from_array": "let _a: %s = GenericArray::from_array([0u8; %d]); let _b: %s = [0u8; %d].into();" % (ga(n), k, ga(n), k),
        "asref_array": "%s let _r: &[u8; %d] = a.as_ref();" % (a, k),
        "from_slice_infer": "let a = GenericArray::from([0u8; %d]); let _b: %s = a;" % (n, ga(k)),
        "into_tuple": "%s let _t: (%s) = a.into();" % (a, "u8, " * k),
        "from_tuple": "let _a: %s = (%s).into();" % (ga(n), "0u8, " * k),
        "flatten_ann": "let aa: GenericArray<%s, %s> = GenericArray::default(); let _f: %s = aa.flatten();" % (ga(n), U(m), ga(k)),
        "unflatten_ann": "%s let _u: GenericArray<%s, %s> = a.unflatten();" % (a, ga(m), U(k)),
        "from_chunks": "let v: Vec<[u8; %d]> = Vec::new(); let _g: &[%s] = GenericArray::from_chunks(&v);" % (k, ga(n)),
        "from_chunks_mut": "let mut v: Vec<[u8; %d]> = Vec::new(); let _g: &mut [%s] = GenericArray::from_chunks_mut(&mut v);" % (k, ga(n)),
        "into_chunks": "let v: Vec<%s> = Vec::new(); let _g: &[[u8; %d]] = GenericArray::into_chunks(&v);" % (ga(n), k),
        "into_chunks_mut": "let mut v: Vec<%s> = Vec::new(); let _g: &mut [[u8; %d]] = GenericArray::into_chunks_mut(&mut v);" % (ga(n), k),
        "const_len": "%s let _c: GenericArray<u8, ConstArrayLength<%d>> = a;" % (a, k),
        "const_len_into": "%s let _c: GenericArray<u8, <Const<%d> as IntoArrayLength>::ArrayLength> = a; let _d: GenericArray<u8, <%s as IntoArrayLength>::ArrayLength> = _c;" % (a, k, U(n)),
        "map_ann": "%s let _b: %s = a.map(|x| x as u16);" % (a, ga(k, "u16")),
        "zip_ann": "%s %s let _c: %s = a.zip(b, |x, y| (x as u16) + (y as u16));" % (a, b, ga(k, "u16")),
    }[op]
    return PRELUDE + "fn main() {\n    " + body + "\n}\n"


ELEM = {"u8": "u8", "string": "String", "rc": "std::rc::Rc<u8>", "cell": "std::cell::Cell<u8>", "rawptr": "*const u8", "noclone": "NoClone", "mutexguard": "std::sync::MutexGuard<'static, u8>"}


def trait_program(d):
    cont = "GenericArray" if d["cont"] == "array" else "GenericArrayIter"
    return PRELUDE + "struct NoClone;\nfn need<X: %s>() {}\nfn main() {\n    need::<%s<%s, U3>>();\n}\n" % (d["tr"], cont, ELEM[d["elem"]])


S3 = "arr![String::new(), String::new(), String::new()]"
# api -> (source declaration, expression producing the reference from `src`, statement mutating the source, needs &mut)
APIS = {
    "as_slice": ("let mut src: GenericArray<String, U3> = %s;" % S3, "src.as_slice()", "src[0] = String::new();"),
    "as_mut_slice": ("let mut src: GenericArray<String, U3> = %s;" % S3, "src.as_mut_slice()", "src[0] = String::new();"),
    "deref": ("let mut src: GenericArray<String, U3> = %s;" % S3, "&src[..]", "src[0] = String::new();"),
    "asref_array": ("let mut src: GenericArray<String, U3> = %s;" % S3, "AsRef::<[String; 3]>::as_ref(&src)", "src[0] = String::new();"),
    "iter": ("let mut src: GenericArray<String, U3> = %s;" % S3, "src.iter()", "src[0] = String::new();"),
    "iter_mut": ("let mut src: GenericArray<String, U3> = %s;" % S3, "src.iter_mut()", "src[0] = String::new();"),
    "split_ref": ("let mut src: GenericArray<String, U3> = %s;" % S3, "Split::<String, U1>::split(&src).0", "src[0] = String::new();"),
    "split_mut": ("let mut src: GenericArray<String, U3> = %s;" % S3, "Split::<String, U1>::split(&mut src).1", "src[0] = String::new();"),
    "unflatten_ref": ("let mut src: GenericArray<String, U6> = GenericArray::default();", "Unflatten::<String, U6, U3>::unflatten(&src)", "src[0] = String::new();"),
    "flatten_ref": ("let mut src: GenericArray<GenericArray<String, U3>, U2> = GenericArray::default();", "Flatten::flatten(&src)", "src[0] = GenericArray::default();"),
    "flatten_mut": ("let mut src: GenericArray<GenericArray<String, U3>, U2> = GenericArray::default();", "Flatten::flatten(&mut src)", "src[0] = GenericArray::default();"),
    "from_slice": ("let mut src: Vec<String> = vec![String::new(); 3];", "GenericArray::<String, U3>::from_slice(&src)", "src.push(String::new());"),
    "try_from_slice": ("let mut src: Vec<String> = vec![String::new(); 3];", "GenericArray::<String, U3>::try_from_slice(&src).unwrap()", "src.push(String::new());"),
    "from_mut_slice": ("let mut src: Vec<String> = vec![String::new(); 3];", "GenericArray::<String, U3>::from_mut_slice(&mut src)", "src.push(String::new());"),
    "chunks_from_slice": ("let mut src: Vec<String> = vec![String::new(); 7];", "GenericArray::<String, U3>::chunks_from_slice(&src).0", "src.push(String::new());"),
    "chunks_from_slice_mut": ("let mut src: Vec<String> = vec![String::new(); 7];", "GenericArray::<String, U3>::chunks_from_slice_mut(&mut src).1", "src.push(String::new());"),
    "slice_from_chunks_mut": ("let mut src: Vec<GenericArray<String, U3>> = vec![GenericArray::default(); 2];", "GenericArray::<String, U3>::slice_from_chunks_mut(&mut src)", "src.push(GenericArray::default());"),
    "from_chunks_mut": ("let mut src: Vec<[String; 3]> = vec![[String::new(), String::new(), String::new()]; 2];", "GenericArray::<String, U3>::from_chunks_mut(&mut src)", "src.clear();"),
    "into_chunks_mut": ("let mut src: Vec<GenericArray<String, U3>> = vec![GenericArray::default(); 2];", "GenericArray::<String, U3>::into_chunks_mut::<3>(&mut src)", "src.push(GenericArray::default());"),
    "try_from_mut_slice": ("let mut src: Vec<String> = vec![String::new(); 3];", "GenericArray::<String, U3>::try_from_mut_slice(&mut src).unwrap()", "src.push(String::new());"),
    "from_array_mut": ("let mut src: [String; 3] = [String::new(), String::new(), String::new()];", "<&mut GenericArray<String, U3>>::from(&mut src)", "src[0] = String::new();"),
    "unflatten_mut": ("let mut src: GenericArray<String, U6> = GenericArray::default();", "Unflatten::<String, U6, U3>::unflatten(&mut src)", "src[0] = String::new();"),
    "asmut_array": ("let mut src: GenericArray<String, U3> = %s;" % S3, "AsMut::<[String; 3]>::as_mut(&mut src)", "src[0] = String::new();"),
    "slice_from_chunks": ("let mut src: Vec<GenericArray<String, U3>> = vec![GenericArray::default(); 2];", "GenericArray::<String, U3>::slice_from_chunks(&src)", "src.push(GenericArray::default());"),
    "into_chunks": ("let mut src: Vec<GenericArray<String, U3>> = vec![GenericArray::default(); 2];", "GenericArray::<String, U3>::into_chunks::<3>(&src)", "src.push(GenericArray::default());"),
    "from_array_ref": ("let mut src: [String; 3] = [String::new(), String::new(), String::new()];", "<&GenericArray<String, U3>>::from(&src)", "src[0] = String::new();"),
}


def borrow_program(d):
    api, mis, twin = d["api"], d["mis"], d["twin"]
    if api == "arr_contents":
        ret = "'a" if twin else "'static"
        return PRELUDE + "fn pick<'a>(s: &'a String) -> &%s str {\n    let x = arr![s.as_str()];\n    x[0]\n}\nfn main() {\n    let s = String::from(\"x\");\n    touch(pick(&s));\n}\n" % ret
    decl, expr, mutate = APIS[api]
    if mis == "outlive":
        if twin:
            body = "{ %s let r = %s; touch(r); }" % (decl, expr)
        else:
            body = "let r; { %s r = %s; } touch(r);" % (decl, expr)
    elif mis == "move_source":
        if twin:
            body = "%s let r = %s; touch(r); let moved = src;" % (decl, expr)
        else:
            body = "%s let r = %s; let moved = src; touch(r);" % (decl, expr)
    elif mis == "mutate_source":
        if twin:
            body = "%s let r = %s; touch(r); %s" % (decl, expr, mutate)
        else:
            body = "%s let r = %s; %s touch(r);" % (decl, expr, mutate)
    elif mis == "from_shared":
        # the mutable view must require a mutable borrow of its source: the same call on `&src` is a type error
        if twin:
            body = "%s let r = %s; touch(r);" % (decl, expr)
        else:
            shared = expr.replace("&mut src", "&src").replace("src.as_mut_slice()", "(&src).as_mut_slice()").replace("src.iter_mut()", "(&src).iter_mut()")
            body = "%s let src = src; let r = %s; touch(r);" % (decl, shared)
    else:  # second_mut
        if twin:
            body = "%s let r1 = %s; touch(r1); let r2 = %s; touch(r2);" % (decl, expr, expr)
        else:
            body = "%s let r1 = %s; let r2 = %s; touch(r1); touch(r2);" % (decl, expr, expr)
    return PRELUDE + "fn main() {\n    " + body + "\n}\n"


# trait-level length relations: inside a GENERIC function only the bounds the traits declare are known, so
# `same(..)` type-checks exactly when the relation is declared; the twin asserts a relation nobody declares
SAME = "fn same<X>(_: core::marker::PhantomData<X>, _: core::marker::PhantomData<X>) {}\nuse core::marker::PhantomData as P;\nuse core::ops::{Mul, Div};\n"
GENERIC = {
    # relation: (generic function with the true witness, with a false witness)
    "sequence_same_length": ("fn g<S: GenericSequence<u8>>() { same(P::<<S::Sequence as GenericSequence<u8>>::Length>, P::<%s>); }",
                             "S::Length", "U3"),
    "mapped_same_length": ("fn g<S: MappedGenericSequence<u8, u16>>() { same(P::<<S::Mapped as GenericSequence<u16>>::Length>, P::<%s>); }",
                           "S::Length", "U3"),
    "lengthen_then_shorten": ("fn g<A: Lengthen<u8>>() { same(P::<<A::Longer as Shorten<u8>>::Shorter>, P::<%s>); }", "A", "A::Longer"),
    "shorten_then_lengthen": ("fn g<A: Shorten<u8>>() { same(P::<<A::Shorter as Lengthen<u8>>::Longer>, P::<%s>); }", "A", "A::Shorter"),
    "lengthen_roundtrip_values": ("fn g<A: Lengthen<u8>>(a: A) -> %s { let (init, _last) = a.append(1).pop_back(); init }", "A", "A::Longer"),
    "shorten_roundtrip_values": ("fn g<A: Shorten<u8>>(a: A) -> %s { let (init, last) = a.pop_back(); init.append(last) }", "A", "A::Shorter"),
    "concat_rest_length": ("fn g<M: ArrayLength, A: Concat<u8, M>>() { same(P::<<A::Rest as GenericSequence<u8>>::Length>, P::<%s>); }", "M", "A::Length"),
    "flatten_source_length": ("fn g<N: ArrayLength + Mul<M>, M: ArrayLength, S: Flatten<u8, N, M>>() where Prod<N, M>: ArrayLength { same(P::<<S as GenericSequence<GenericArray<u8, N>>>::Length>, P::<%s>); }", "M", "N"),
    "flatten_output_length": ("fn g<N: ArrayLength + Mul<M>, M: ArrayLength, S: Flatten<u8, N, M>>() where Prod<N, M>: ArrayLength { same(P::<<S::Output as GenericSequence<u8>>::Length>, P::<%s>); }", "Prod<N, M>", "M"),
    "unflatten_source_length": ("fn g<NM: ArrayLength + Div<N>, N: ArrayLength, S: Unflatten<u8, NM, N>>() where Quot<NM, N>: ArrayLength { same(P::<<S as GenericSequence<u8>>::Length>, P::<%s>); }", "NM", "N"),
    # the associated result types are themselves sequences (what a generic caller chains further operations on)
    "split_first_is_sequence": ("fn needs<X: GenericSequence<u8>>() {}\nfn g<K: ArrayLength, S: Split<u8, K>>() { needs::<%s>(); }", "S::First", "K"),
    "split_second_is_sequence": ("fn needs<X: GenericSequence<u8>>() {}\nfn g<K: ArrayLength, S: Split<u8, K>>() { needs::<%s>(); }", "S::Second", "K"),
    "concat_output_is_sequence": ("fn needs<X: GenericSequence<u8>>() {}\nfn g<M: ArrayLength, S: Concat<u8, M>>() { needs::<%s>(); }", "S::Output", "M"),
    "remove_output_is_sequence": ("fn needs<X: GenericSequence<u8>>() {}\nfn g<N: ArrayLength, S: Remove<u8, N>>() { needs::<%s>(); }", "S::Output", "N"),
    "sequence_from_iterator": ("fn needf<X: core::iter::FromIterator<u8>>() {}\nfn g<S: GenericSequence<u8>>() { needf::<%s>(); }", "S::Sequence", "S"),
    "unflatten_output_length": ("fn g<NM: ArrayLength + Div<N>, N: ArrayLength, S: Unflatten<u8, NM, N>>() where Quot<NM, N>: ArrayLength { same(P::<<S::Output as GenericSequence<GenericArray<u8, N>>>::Length>, P::<%s>); }", "Quot<NM, N>", "NM"),
}


def generic_program(d):
    tmpl, true_w, false_w = GENERIC[d["rel"]]
    return PRELUDE + SAME + (tmpl % (true_w if d["twin"] else false_w)) + "\nfn main() {}\n"


IMPLS = {
    "Default": "impl core::default::Default for E { fn default() -> E { E } }",
    "Debug": "impl core::fmt::Debug for E { fn fmt(&self, f: &mut core::fmt::Formatter) -> core::fmt::Result { f.write_str(\"E\") } }",
    "PartialEq": "impl core::cmp::PartialEq for E { fn eq(&self, _o: &E) -> bool { true } }",
    "Eq": "impl core::cmp::Eq for E {}",
    "PartialOrd": "impl core::cmp::PartialOrd for E { fn partial_cmp(&self, _o: &E) -> Option<core::cmp::Ordering> { None } }",
    "Ord": "impl core::cmp::Ord for E { fn cmp(&self, _o: &E) -> core::cmp::Ordering { core::cmp::Ordering::Equal } }",
    "Hash": "impl core::hash::Hash for E { fn hash<H: core::hash::Hasher>(&self, _h: &mut H) {} }",
}
SUPER = {"Default": [], "Debug": [], "PartialEq": [], "Eq": ["PartialEq"], "PartialOrd": ["PartialEq"], "Ord": ["PartialEq", "Eq", "PartialOrd"], "Hash": []}
PATH = {"Default": "core::default::Default", "Debug": "core::fmt::Debug", "PartialEq": "core::cmp::PartialEq", "Eq": "core::cmp::Eq", "PartialOrd": "core::cmp::PartialOrd", "Ord": "core::cmp::Ord", "Hash": "core::hash::Hash"}


def bound_program(d):
    tr = d["tr"]
    cont = "GenericArray" if d["cont"] == "array" else "GenericArrayIter"
    has = {"none": [], "super": SUPER[tr], "full": SUPER[tr] + [tr]}[d["elem"]]
    impls = "\n".join(IMPLS[x] for x in has)
    return PRELUDE + "struct E;\n%s\nfn need<X: %s>() {}\nfn main() {\n    need::<%s<E, U3>>();\n}\n" % (impls, PATH[tr], cont)


def program(d):
    if d["kind"] == "bound":
        return bound_program(d)
    if d["kind"] == "generic":
        return generic_program(d)
    if d["kind"] == "len":
        return len_program(d)
    if d["kind"] == "trait":
        return trait_program(d)
    return borrow_program(d)
