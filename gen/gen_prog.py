"""Generates the Rust programs for C18 (const evaluation of the const API) and C20 (arr!/box_arr!).
Each program prints NDJSON records; expected values are NOT computed here: TLC compares the records
with spec/Macros.tla."""

ETY = {
    "u8": dict(ty="u8", mk="({i}) as u8", val="({x}) as i64"),
    "u32": dict(ty="u32", mk="({i}) as u32", val="({x}) as i64"),
    "u8u16": dict(ty="(u8, u16)", mk="(1u8, ({i}) as u16)", val="({x}).1 as i64"),
    "unit": dict(ty="()", mk="()", val="{{ let _ = {x}; 0i64 }}"),
}


def U(n):
    return "U%d" % n


def src_array(e, l):
    """A const expression of type [T; l] holding the values 1..=l."""
    t = ETY[e]
    if l == 0:
        return "[]"
    return "{ let mut a = [%s; %d]; let mut i = 0usize; while i < %d { a[i] = %s; i += 1; } a }" % (t["mk"].format(i="0"), l, l, t["mk"].format(i="i + 1"))


def sum_slice(e, expr):
    t = ETY[e]
    return "{ let s = %s; let mut acc = 0i64; let mut i = 0usize; while i < s.len() { acc += %s; i += 1; } acc }" % (expr, t["val"].format(x="s[i]"))


def c18_row(idx, d, e):
    """Returns (macro definition, record printing code) for one table row, or None if the row cannot
    be a const item (rows whose expected outcome is a panic)."""
    api, n, l, m = d["api"], d["n"], d["l"], d["m"]
    T = ETY[e]["ty"]
    G = "GenericArray::<%s, %s>" % (T, U(n))
    src = "let src: [%s; %d] = %s;" % (T, l, src_array(e, l))
    msrc = "let mut src: [%s; %d] = %s;" % (T, l, src_array(e, l))
    poke = ETY[e]["mk"].format(i="99")
    body = None
    if api in ("try_from_slice", "from_slice"):
        if api == "from_slice" and l != n:
            return None
        call = "%s::try_from_slice(&src)" % G if api == "try_from_slice" else "Ok::<_, generic_array::LengthError>(%s::from_slice(&src))" % G
        body = "%s match %s { Ok(g) => [0, g.as_slice().len() as i64, %s, 0, 0, -1], Err(_) => [1, 0, 0, 0, 0, -1] }" % (src, call, sum_slice(e, "g.as_slice()"))
    elif api in ("try_from_mut_slice", "from_mut_slice"):
        if api == "from_mut_slice" and l != n:
            return None
        call = "%s::try_from_mut_slice(&mut src)" % G if api == "try_from_mut_slice" else "Ok::<_, generic_array::LengthError>(%s::from_mut_slice(&mut src))" % G
        body = ("%s let r: [i64; 2] = match %s { Ok(g) => { let s = g.as_mut_slice(); if s.len() > 0 { s[0] = %s; } [0, s.len() as i64] } Err(_) => [1, 0] }; "
                "[r[0], r[1], if r[0] == 0 { %s } else { 0 }, 0, 0, -1]") % (msrc, call, poke, sum_slice(e, "&src"))
    elif api == "chunks_from_slice":
        if n == 0 and l > 0:
            return None
        body = ("%s let (c, r) = %s::chunks_from_slice(&src); let mut acc = 0i64; let mut i = 0usize; while i < c.len() { acc += %s; i += 1; } "
                "[0, (c.len() * %d) as i64, acc, r.len() as i64, %s, c.len() as i64]") % (src, G, sum_slice(e, "c[i].as_slice()"), n, sum_slice(e, "r"))
    elif api == "chunks_from_slice_mut":
        if n == 0 and l > 0:
            return None
        body = ("%s let lens: [i64; 3] = { let (c, r) = %s::chunks_from_slice_mut(&mut src); if c.len() > 0 && %d > 0 { c[0].as_mut_slice()[0] = %s; } if r.len() > 0 { r[0] = %s; } "
                "[(c.len() * %d) as i64, r.len() as i64, c.len() as i64] }; let k = lens[0] as usize; "
                "[0, lens[0], %s, lens[1], %s, lens[2]]") % (msrc, G, n, poke, poke, n, sum_slice(e, "src.split_at(k).0"), sum_slice(e, "src.split_at(k).1"))
    elif api in ("slice_from_chunks", "slice_from_chunks_mut", "from_chunks", "from_chunks_mut", "into_chunks", "into_chunks_mut"):
        # m chunks of n elements holding 1..=m*n
        chunks = "let %schunks: [[%s; %d]; %d] = { let mut c = [[%s; %d]; %d]; let mut i = 0usize; while i < %d { let mut j = 0usize; while j < %d { c[i][j] = %s; j += 1; } i += 1; } c };" % (
            "mut " if api.endswith("_mut") else "", T, n, m, ETY[e]["mk"].format(i="0"), n, m, m, n, ETY[e]["mk"].format(i="i * %d + j + 1" % n))
        if api == "from_chunks":
            body = "%s let g: &[GenericArray<%s, %s>] = GenericArray::from_chunks(&chunks); let mut acc = 0i64; let mut i = 0usize; while i < g.len() { acc += %s; i += 1; } [0, (g.len() * %d) as i64, acc, 0, 0, g.len() as i64]" % (
                chunks, T, U(n), sum_slice(e, "g[i].as_slice()"), n)
        elif api == "from_chunks_mut":
            body = ("%s let cnt: i64 = { let g: &mut [GenericArray<%s, %s>] = GenericArray::from_chunks_mut(&mut chunks); if g.len() > 0 && %d > 0 { g[0].as_mut_slice()[0] = %s; } g.len() as i64 }; "
                    "let mut acc = 0i64; let mut i = 0usize; while i < chunks.len() { acc += %s; i += 1; } [0, cnt * %d, acc, 0, 0, cnt]") % (chunks, T, U(n), n, poke, sum_slice(e, "&chunks[i]"), n)
        elif api == "into_chunks_mut":
            body = ("%s let cnt: i64 = { let g0: &mut [GenericArray<%s, %s>] = GenericArray::from_chunks_mut(&mut chunks); let back: &mut [[%s; %d]] = GenericArray::into_chunks_mut(g0); if back.len() > 0 && %d > 0 { back[0][0] = %s; } back.len() as i64 }; "
                    "let mut acc = 0i64; let mut i = 0usize; while i < chunks.len() { acc += %s; i += 1; } [0, cnt * %d, acc, 0, 0, cnt]") % (chunks, T, U(n), T, n, n, poke, sum_slice(e, "&chunks[i]"), n)
        elif api == "into_chunks":
            mk_g = "let g0: &[GenericArray<%s, %s>] = GenericArray::from_chunks(&chunks);" % (T, U(n))
            body = "%s %s let back: &[[%s; %d]] = GenericArray::into_chunks(g0); let mut acc = 0i64; let mut i = 0usize; while i < back.len() { acc += %s; i += 1; } [0, (back.len() * %d) as i64, acc, 0, 0, back.len() as i64]" % (
                chunks.replace("let mut chunks", "let chunks"), mk_g, T, n, sum_slice(e, "&back[i]"), n)
        elif api == "slice_from_chunks":
            body = "%s let g0: &[GenericArray<%s, %s>] = GenericArray::from_chunks(&chunks); let s = %s::slice_from_chunks(g0); [0, s.len() as i64, %s, 0, 0, -1]" % (chunks, T, U(n), G, sum_slice(e, "s"))
        else:
            body = ("%s let len: i64 = { let g0: &mut [GenericArray<%s, %s>] = GenericArray::from_chunks_mut(&mut chunks); let s = %s::slice_from_chunks_mut(g0); if s.len() > 0 { s[0] = %s; } s.len() as i64 }; "
                    "let mut acc = 0i64; let mut i = 0usize; while i < chunks.len() { acc += %s; i += 1; } [0, len, acc, 0, 0, -1]") % (chunks, T, U(n), G, poke, sum_slice(e, "&chunks[i]"))
    elif api == "array_roundtrip":
        body = "%s let g = %s::from_array(src); let n0 = %s::len() as i64; let s1 = %s; let back: [%s; %d] = g.into_array(); [0, n0, s1, back.len() as i64, %s, -1]" % (
            src, G, G, sum_slice(e, "g.as_slice()"), T, n, sum_slice(e, "&back"))
    elif api == "const_transmute":
        # the crate's public const transmute between equally sized types of DIFFERENT alignment ([u8; 4n] -> [u32; n]);
        # the bytes are all 1, so every u32 is 0x01010101 = 16843009 whatever the byte order (element type ignored)
        if e != "u8" or n == 0 or n > 8:
            return None
        body = ("let src: [u8; %d] = [1u8; %d]; let w: [u32; %d] = unsafe { generic_array::const_transmute::<[u8; %d], [u32; %d]>(src) }; "
                "let mut acc = 0i64; let mut i = 0usize; while i < w.len() { acc += (w[i] / 16843009) as i64; i += 1; } [0, w.len() as i64, acc, 0, 0, -1]") % (4 * n, 4 * n, n, 4 * n, n)
    elif api == "uninit_assume_init":
        body = ("let mut u = %s::uninit(); { let s = u.as_mut_slice(); let mut i = 0usize; while i < s.len() { s[i] = core::mem::MaybeUninit::new(%s); i += 1; } } "
                "let g = unsafe { GenericArray::assume_init(u) }; [0, g.as_slice().len() as i64, %s, 0, 0, -1]") % (G, ETY[e]["mk"].format(i="i + 1"), sum_slice(e, "g.as_slice()"))
    else:
        return None
    name = "row%d" % idx
    mac = "macro_rules! %s { () => {{ %s }}; }\nconst C_%s: [i64; 6] = %s!();\n#[inline(never)] fn rt_%s() -> [i64; 6] { %s!() }\n" % (name, body, name.upper(), name, name, name)
    rec = ('    println!("{{\\"ev\\":\\"constrt\\",\\"api\\":\\"%s\\",\\"ety\\":\\"%s\\",\\"n\\":%d,\\"l\\":%d,\\"m\\":%d,\\"cv\\":{:?},\\"rv\\":{:?}}}", C_%s, rt_%s());\n'
           % (api, e, n, l, m, name.upper(), name))
    return mac, rec


def c18_program(rows, etys):
    macs, recs = [], []
    idx = 0
    for d in rows:
        for e in etys:
            if e == "u8" and max(d["l"], d["n"] * max(d["m"], 1)) > 250:
                continue  # u8 cells hold their index: no wrap-around in the summaries
            r = c18_row(idx, d, e)
            idx += 1
            if r:
                macs.append(r[0])
                recs.append(r[1])
    src = ("#![allow(unused, unused_mut, unused_unsafe, clippy::all)]\nuse generic_array::typenum::*;\nuse generic_array::GenericArray;\n\n" + "\n".join(macs)
           + "\nfn main() {\n" + "".join(recs) + "}\n")
    return src, len(recs)


def c18_fail_program(kind):
    """Programs whose const evaluation must be rejected (a panic inside a const item)."""
    if kind == "from_slice_wrong_len":
        body = "const BAD: &GenericArray<u8, U3> = GenericArray::from_slice(&[1u8, 2]);"
    elif kind == "chunks_n0_nonempty":
        body = "const BAD: (&[GenericArray<u8, U0>], &[u8]) = GenericArray::<u8, U0>::chunks_from_slice(&[1u8]);"
    else:
        body = "const BAD: &mut GenericArray<u8, U2> = GenericArray::from_mut_slice(&mut [1u8, 2, 3]);"
    return "#![allow(unused)]\nuse generic_array::typenum::*;\nuse generic_array::GenericArray;\n%s\nfn main() { let _ = BAD; }\n" % body


def c20_program(ks, repeat_lens):
    out = []
    w = out.append
    w("#![allow(unused, clippy::all)]")
    w("use generic_array::typenum::*;")
    w("use generic_array::{arr, box_arr, GenericArray};")
    w("use std::cell::RefCell;")
    w("thread_local! { static EV: RefCell<Vec<i64>> = RefCell::new(vec![]); }")
    w("fn e(i: i64) -> i64 { EV.with(|v| v.borrow_mut().push(i)); 1000 + i }")
    w("fn es(i: i64) -> String { EV.with(|v| v.borrow_mut().push(i)); (1000 + i).to_string() }")
    w("fn take() -> Vec<i64> { EV.with(|v| std::mem::take(&mut *v.borrow_mut())) }")
    w("fn nums(s: &[String]) -> Vec<i64> { s.iter().map(|x| x.parse().unwrap()).collect() }")
    w("thread_local! { static ZD: std::cell::Cell<i64> = std::cell::Cell::new(0); }")
    w("#[derive(Clone)] struct Zd; impl Drop for Zd { fn drop(&mut self) { ZD.with(|c| c.set(c.get() + 1)); } }")
    w("fn zd() -> i64 { ZD.with(|c| c.replace(0)) }")
    w('fn zrec(form: &str, k: usize, len: usize, while_alive: i64, after: i64) { println!("{{\\"ev\\":\\"macro_zst\\",\\"form\\":\\"{}\\",\\"k\\":{},\\"len\\":{},\\"while_alive\\":{},\\"after\\":{}}}", form, k, len, while_alive, after); }')
    w('fn rec(form: &str, k: usize, evals: &[i64], items: &[i64], len: usize, bevals: &[i64], bitems: &[i64], blen: usize) {')
    w('    println!("{{\\"ev\\":\\"macro\\",\\"form\\":\\"{}\\",\\"k\\":{},\\"evals\\":{:?},\\"items\\":{:?},\\"len\\":{},\\"bevals\\":{:?},\\"bitems\\":{:?},\\"blen\\":{}}}", form, k, evals, items, len, bevals, bitems, blen);')
    w("}")
    consts = []
    main = []
    for k in ks:
        lst = ", ".join("e(%d)" % i for i in range(k))
        lsts = ", ".join("es(%d)" % i for i in range(k))
        ann = "GenericArray<i64, U%d>" % k
        anns = "GenericArray<String, U%d>" % k
        for form, l, trailing in (("list", lst, ""), ("list_trailing", lst, "," if k else "")):
            main.append("    { let a: %s = arr![%s%s]; let ev = take(); let b: Box<%s> = box_arr![%s%s]; let bev = take(); rec(\"%s\", %d, &ev, a.as_slice(), a.len(), &bev, b.as_slice(), b.len()); }" % (
                ann, l, trailing, ann, l, trailing, form, k))
        if k <= 64:
            main.append("    { let a: %s = arr![%s]; let ev = take(); let b: Box<%s> = box_arr![%s]; let bev = take(); rec(\"list_noncopy\", %d, &ev, &nums(a.as_slice()), a.len(), &bev, &nums(b.as_slice()), b.len()); }" % (
                anns, lsts, anns, lsts, k))
            # const position: the same literal as a const item
            clist = ", ".join(str(1000 + i) for i in range(k))
            consts.append("const CL_%d: GenericArray<i64, U%d> = arr![%s];" % (k, k, clist))
            main.append("    rec(\"const_list\", %d, &[], CL_%d.as_slice(), CL_%d.len(), &[], CL_%d.as_slice(), CL_%d.len());" % (k, k, k, k, k))
    for k in [x for x in ks if x <= 17]:
        # zero-sized elements with a destructor: none may be dropped while the array is alive, all k afterwards
        zl = ", ".join("Zd" for _ in range(k))
        main.append("    { zd(); let a: GenericArray<Zd, U%d> = arr![%s]; let l = a.len(); let alive = zd(); drop(a); zrec(\"arr_list_zst\", %d, l, alive, zd()); }" % (k, zl, k))
        main.append("    { zd(); let b: Box<GenericArray<Zd, U%d>> = box_arr![%s]; let l = b.len(); let alive = zd(); drop(b); zrec(\"box_list_zst\", %d, l, alive, zd()); }" % (k, zl, k))
        main.append("    { zd(); let b: Box<GenericArray<Zd, U%d>> = box_arr![Zd; U%d]; let l = b.len(); let alive = zd(); drop(b); zrec(\"box_repeat_zst\", %d, l, alive, zd()); }" % (k, k, k))
    for n in repeat_lens:
        # repeat forms: type-level length and constant expression; the element expression is evaluated once
        main.append("    { let a = arr![e(7); U%d]; let ev = take(); let b = box_arr![e(7); U%d]; let bev = take(); rec(\"repeat_ty\", %d, &ev, a.as_slice(), a.len(), &bev, b.as_slice(), b.len()); }" % (n, n, n))
        main.append("    { let a = arr![e(7); %d]; let ev = take(); let b = box_arr![e(7); %d]; let bev = take(); rec(\"repeat_const\", %d, &ev, a.as_slice(), a.len(), &bev, b.as_slice(), b.len()); }" % (n, n, n))
        consts.append("const CR_%d: GenericArray<i64, U%d> = arr![1007; U%d];" % (n, n, n))
        consts.append("const CRC_%d: GenericArray<i64, U%d> = arr![1007; %d];" % (n, n, n))
        main.append("    rec(\"const_repeat\", %d, &[], CR_%d.as_slice(), CR_%d.len(), &[], CRC_%d.as_slice(), CRC_%d.len());" % (n, n, n, n, n))
        if n <= 64:
            main.append("    { let b: Box<GenericArray<String, U%d>> = box_arr![es(7); U%d]; let bev = take(); rec(\"box_repeat_noncopy\", %d, &bev, &nums(b.as_slice()), b.len(), &bev, &nums(b.as_slice()), b.len()); }" % (n, n, n))
    # constant lengths given by a const generic parameter of the enclosing fn / const fn (arr! only: box_arr!'s
    # constant-length form names the length in an item of its own and cannot see outer generics)
    w("fn gen_rep<const N: usize>() -> GenericArray<i64, generic_array::ConstArrayLength<N>> where generic_array::typenum::Const<N>: generic_array::IntoArrayLength { arr![e(7); { N }] }")
    w("const fn cgen_rep<const N: usize>() -> GenericArray<i64, generic_array::ConstArrayLength<N>> where generic_array::typenum::Const<N>: generic_array::IntoArrayLength { arr![1007; { N }] }")
    for n in [x for x in repeat_lens if x <= 1024]:
        main.append("    { let a = gen_rep::<%d>(); let ev = take(); rec(\"repeat_constgeneric\", %d, &ev, a.as_slice(), a.len(), &ev, a.as_slice(), a.len()); }" % (n, n))
        consts.append("const CG_%d: GenericArray<i64, generic_array::ConstArrayLength<%d>> = cgen_rep::<%d>();" % (n, n, n))
        main.append("    rec(\"const_repeat\", %d, &[], CG_%d.as_slice(), CG_%d.len(), &[], CG_%d.as_slice(), CG_%d.len());" % (n, n, n, n, n))
    # token shapes of the length and of the elements: parenthesised / braced / arithmetic / named constant lengths, type
    # expressions and paths as type-level lengths, nested macro calls and method calls as elements
    w("const FOUR: usize = 4;")
    for shape in ("{ 3 }", "1 + 2", "{ FOUR - 1 }"):   # ("(3)" and "FOUR - 1" start like a type and are not accepted by the pinned macros)
        main.append("    { let a = arr![e(7); %s]; let ev = take(); let b = box_arr![e(7); %s]; let bev = take(); rec(\"repeat_const\", 3, &ev, a.as_slice(), a.len(), &bev, b.as_slice(), b.len()); }" % (shape, shape))
    for shape in ("generic_array::typenum::U3", "Sum<U1, U2>", "<U1 as core::ops::Add<U2>>::Output", "Diff<U7, U4>"):
        main.append("    { let a = arr![e(7); %s]; let ev = take(); let b = box_arr![e(7); %s]; let bev = take(); rec(\"repeat_ty\", 3, &ev, a.as_slice(), a.len(), &bev, b.as_slice(), b.len()); }" % (shape, shape))
    main.append("    { let a = arr![arr![e(0), e(1)], arr![e(2), e(3)]]; let ev = take(); let b = box_arr![arr![e(0), e(1)], arr![e(2), e(3)]]; let bev = take(); "
                "let fa: Vec<i64> = a.iter().flat_map(|r| r.iter().copied()).collect(); let fb: Vec<i64> = b.iter().flat_map(|r| r.iter().copied()).collect(); rec(\"list\", 4, &ev, &fa, fa.len(), &bev, &fb, fb.len()); }")
    main.append("    { let a = arr![e(0).wrapping_add(0), { e(1) }, (e(2)), if true { e(3) } else { 0 }]; let ev = take(); let b = box_arr![e(0).wrapping_add(0), { e(1) }, (e(2)), if true { e(3) } else { 0 }]; let bev = take(); rec(\"list\", 4, &ev, a.as_slice(), a.len(), &bev, b.as_slice(), b.len()); }")
    # a length given by a generic TYPE parameter of the enclosing fn: box_arr!'s type-level repeat form accepts it
    # (arr!'s names the length in an inner const item and cannot see outer generics - not demanded)
    w("fn tgen_rep<N: generic_array::ArrayLength>() -> (Box<GenericArray<i64, N>>, Vec<i64>) { let b = box_arr![e(7); N]; let bev = take(); (b, bev) }")
    for n in [x for x in repeat_lens if x <= 1024][:6]:
        main.append("    { let (b, bev) = tgen_rep::<U%d>(); rec(\"repeat_ty\", %d, &bev, b.as_slice(), b.len(), &bev, b.as_slice(), b.len()); }" % (n, n))
    # hygiene: the macros are invoked where the usual names mean something else
    hyg = """
mod hyg {
    #![allow(unused_macros, non_camel_case_types, dead_code, unused_imports)]
    macro_rules! vec { ($($t:tt)*) => { compile_error!("the caller's vec! was used by the crate's macro") } }
    macro_rules! arr_inner { ($($t:tt)*) => { compile_error!("caller macro used") } }
    pub struct Box; pub struct Vec; pub struct GenericArray; pub struct Option; pub struct Some; pub struct ArrayLength;
    pub mod core {} pub mod alloc {} pub mod std {} pub mod generic_array {} pub mod typenum {}
    use super::{e, rec, take};
    pub fn run() {
        { let a = ::generic_array::arr![e(0), e(1), e(2)]; let ev = take(); let b = ::generic_array::box_arr![e(0), e(1), e(2)]; let bev = take();
          rec("hyg_list", 3, &ev, a.as_slice(), a.len(), &bev, b.as_slice(), b.len()); }
        { let a = ::generic_array::arr![e(7); ::generic_array::typenum::U4]; let ev = take(); let b = ::generic_array::box_arr![e(7); ::generic_array::typenum::U4]; let bev = take();
          rec("hyg_repeat_ty", 4, &ev, a.as_slice(), a.len(), &bev, b.as_slice(), b.len()); }
        { let a = ::generic_array::arr![e(7); 4]; let ev = take(); let b = ::generic_array::box_arr![e(7); 4]; let bev = take();
          rec("hyg_repeat_const", 4, &ev, a.as_slice(), a.len(), &bev, b.as_slice(), b.len()); }
    }
}
"""
    # items of the CALLER named like helper items a macro might define for itself (items in a macro expansion are not
    # hygienic): the element expression must still mean the caller's item
    names = ["LEN", "N", "LENGTH", "SIZE", "COUNT", "INPUT_LENGTH", "K", "M", "X", "ARRAY", "UNIT"]
    hyg2 = "\nmod hyg_items {\n    #![allow(dead_code, non_upper_case_globals)]\n    use generic_array::typenum::*;\n    use generic_array::{arr, box_arr};\n    use super::rec;\n"
    hyg2 += "".join("    const %s: i64 = 1007;\n" % nm for nm in names)
    hyg2 += "    fn do_transmute() -> i64 { 1007 }\n    fn from_vec_helper() -> i64 { 1007 }\n    pub fn run() {\n"
    for nm in names + ["do_transmute()", "from_vec_helper()"]:
        hyg2 += "        { let a = arr![%s; U3]; let b = box_arr![%s; U3]; rec(\"const_repeat\", 3, &[], a.as_slice(), a.len(), &[], b.as_slice(), b.len()); }\n" % (nm, nm)
        hyg2 += "        { let a = arr![%s; 3]; let b = box_arr![%s; 3]; rec(\"const_repeat\", 3, &[], a.as_slice(), a.len(), &[], b.as_slice(), b.len()); }\n" % (nm, nm)
        hyg2 += "        { let a = arr![%s, %s]; let b = box_arr![%s, %s]; rec(\"const_repeat\", 2, &[], a.as_slice(), a.len(), &[], b.as_slice(), b.len()); }\n" % (nm, nm, nm, nm)
    hyg2 += "    }\n}\n"
    hyg += hyg2
    for (ty, hi, lo) in (("U4294967296", 1, 0), ("Sum<U4294967296, U7>", 1, 7), ("U1099511627776", 256, 0)):
        main.append("    { let b: Box<GenericArray<(), %s>> = box_arr![(); %s]; let l = b.len() as u64; println!(\"{{\\\"ev\\\":\\\"macro_huge\\\",\\\"k_hi\\\":%d,\\\"k_lo\\\":%d,\\\"len_hi\\\":{},\\\"len_lo\\\":{}}}\", l >> 32, l & 0xffff_ffff); }" % (ty, ty, hi, lo))
    main.append("    hyg::run();")
    main.append("    hyg_items::run();")
    return "\n".join(out) + "\n" + "\n".join(consts) + hyg + "\nfn main() {\n" + "\n".join(main) + "\n}\n"
