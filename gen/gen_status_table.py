#!/usr/bin/env python3
"""Rewrites the per-property status table of DESIGN.md from lib/registry.py and evidence/*.json."""
import json, os, re, sys
ROOT = os.path.dirname(os.path.dirname(os.path.abspath(__file__)))
sys.path.insert(0, os.path.join(ROOT, "lib"))
import registry
rows = []
for pid in sorted(registry.REG):
    p = os.path.join(ROOT, "evidence", pid + ".json")
    if not os.path.exists(p):
        continue
    e = json.load(open(p))
    c = e["coverage"]
    models = ", ".join(sorted({"%s/%s" % (m["module"], m.get("cfg", "")) for m in c.get("mc_runs", []) if "module" in m}))
    rows.append("| %s | %s | %s | %d / %d | %d | %d | %.0f s (%s) |" % (
        pid, e["level"], models or "-", c.get("states", 0), c.get("transitions", 0), c.get("traces_validated_against_impl", c.get("programs", 0)),
        c.get("trace_events", c.get("evaluations", 0)), e["wall_s"], e["tier"]))
table = ("| property | level | models run | model states / transitions | real-code cases validated | events or records | wall time of the recorded run |\n|---|---|---|---|---|---|---|\n" + "\n".join(rows))
p = os.path.join(ROOT, "DESIGN.md")
s = open(p).read()
if "<!-- STATUS-TABLE-BEGIN -->" in s:
    s = re.sub(r"<!-- STATUS-TABLE-BEGIN -->.*<!-- STATUS-TABLE-END -->", "<!-- STATUS-TABLE-BEGIN -->\n" + table + "\n<!-- STATUS-TABLE-END -->", s, flags=re.S)
else:
    s += "\n### 12.8 Per-property status (generated from the evidence files by gen/gen_status_table.py)\n\n<!-- STATUS-TABLE-BEGIN -->\n" + table + "\n<!-- STATUS-TABLE-END -->\n"
open(p, "w").write(s)
print(len(rows), "rows")
