//! Element types whose identity, clones and destructor runs are observable.
use crate::ev;
use std::sync::atomic::{AtomicI64, Ordering};
use std::sync::Mutex;

pub static NEXT_ID: AtomicI64 = AtomicI64::new(1);
pub fn next_id() -> i64 {
    NEXT_ID.fetch_add(1, Ordering::SeqCst)
}
pub fn reset_ids() {
    NEXT_ID.store(1, Ordering::SeqCst);
    let mut f = FUSES.lock().unwrap();
    f.drop.clear();
    f.clone.clear();
}

/// One-shot faults keyed by element id: the destructor / Clone of that element panics once.
pub struct Fuses {
    pub drop: Vec<i64>,
    pub clone: Vec<i64>,
    /// ids whose creation by Default::default panics instead (the id is consumed, the element never exists)
    pub default: Vec<i64>,
}
pub static FUSES: Mutex<Fuses> = Mutex::new(Fuses { drop: Vec::new(), clone: Vec::new(), default: Vec::new() });

fn take_fuse(which: fn(&mut Fuses) -> &mut Vec<i64>, id: i64) -> bool {
    let _b = crate::events::Bypass::new();
    let mut f = match FUSES.lock() {
        Ok(f) => f,
        Err(p) => p.into_inner(),
    };
    let v = which(&mut f);
    if let Some(p) = v.iter().position(|x| *x == id) {
        v.remove(p);
        true
    } else {
        false
    }
}

/// The (zero-sized) panic payload used for every injected fault.
pub struct Injected;
pub fn injected_panic() -> ! {
    std::panic::resume_unwind(Box::new(Injected))
}

pub trait Elem: Sized + Clone + Default + std::fmt::Debug + serde::Serialize + serde::de::DeserializeOwned + 'static {
    const ETY: &'static str;
    fn fresh() -> Self;
    fn id(&self) -> i64;
}

const CANARY: u32 = 0x5AA5_C33C;

/// Drop-tracked element with an identity.
pub struct Tk {
    id: u32,
    canary: u32,
    /// how often THIS value has been the `&self` of Clone::clone (travels with the value when it is moved; a
    /// bitwise copy that is cloned instead of the original makes the two counts part ways)
    clones: std::cell::Cell<u32>,
}
impl Tk {
    pub fn with_id(id: i64) -> Tk {
        Tk { id: id as u32, canary: CANARY ^ (id as u32), clones: std::cell::Cell::new(0) }
    }
}
impl Elem for Tk {
    const ETY: &'static str = "tk";
    fn fresh() -> Tk {
        Tk::with_id(next_id())
    }
    fn id(&self) -> i64 {
        if self.canary == CANARY ^ self.id { self.id as i64 } else { -1 }
    }
}
impl Drop for Tk {
    fn drop(&mut self) {
        if self.canary != CANARY ^ self.id {
            // an uninitialised or overwritten slot dropped as if it held a value
            ev!("\"ev\":\"drop\",\"id\":-1,\"panic\":false");
            return;
        }
        let id = self.id as i64;
        if take_fuse(|f| &mut f.drop, id) {
            ev!("\"ev\":\"drop\",\"id\":{},\"panic\":true", id);
            injected_panic();
        }
        ev!("\"ev\":\"drop\",\"id\":{},\"panic\":false", id);
    }
}
impl Clone for Tk {
    fn clone(&self) -> Tk {
        let src = self.id();
        if take_fuse(|f| &mut f.clone, src) {
            ev!("\"ev\":\"clone_panic\",\"src\":{}", src);
            injected_panic();
        }
        let nth = self.clones.get();
        self.clones.set(nth + 1);
        let n = Tk::fresh();
        ev!("\"ev\":\"clone\",\"src\":{},\"new\":{},\"nth\":{}", src, n.id(), nth);
        n
    }
}
impl Default for Tk {
    fn default() -> Tk {
        let n = Tk::fresh();
        if take_fuse(|f| &mut f.default, n.id()) {
            // Default::default of the element type panics: nothing was created
            std::mem::forget(n);
            ev!("\"ev\":\"mkdef_panic\"");
            injected_panic();
        }
        ev!("\"ev\":\"mkdef\",\"id\":{}", n.id());
        n
    }
}
impl std::fmt::Debug for Tk {
    fn fmt(&self, f: &mut std::fmt::Formatter) -> std::fmt::Result {
        write!(f, "Tk#{}", self.id())
    }
}

/// Drop-tracked element of 24 bytes (Tk is 8): same identity / canary / fault behaviour.
pub struct Tk24 {
    inner: Tk,
    pad: [u64; 2],
}
impl Elem for Tk24 {
    const ETY: &'static str = "tk";
    fn fresh() -> Tk24 {
        let inner = Tk::fresh();
        let p = inner.id() as u64;
        Tk24 { inner, pad: [p ^ 0x1111, p ^ 0x2222] }
    }
    fn id(&self) -> i64 {
        let p = self.inner.id() as u64;
        if self.pad == [p ^ 0x1111, p ^ 0x2222] { self.inner.id() } else { -1 }
    }
}
impl Clone for Tk24 {
    fn clone(&self) -> Tk24 {
        let inner = self.inner.clone();
        let p = inner.id() as u64;
        Tk24 { inner, pad: [p ^ 0x1111, p ^ 0x2222] }
    }
}
impl Default for Tk24 {
    fn default() -> Tk24 {
        let inner = Tk::default();
        let p = inner.id() as u64;
        Tk24 { inner, pad: [p ^ 0x1111, p ^ 0x2222] }
    }
}
impl std::fmt::Debug for Tk24 {
    fn fmt(&self, f: &mut std::fmt::Formatter) -> std::fmt::Result {
        write!(f, "Tk24#{}", self.id())
    }
}

/// Drop-tracked element of 256 bytes: arrays of it cross byte-size thresholds (256 KiB at N = 1024)
/// that arrays of small elements never reach.
/// (size = 8 * (TKBIG_PAD + 1) bytes; the value pool's enum is as large as its largest array of these)
pub const TKBIG_PAD: usize = 31;
pub struct Tk1k {
    inner: Tk,
    pad: [u64; TKBIG_PAD],
}
impl Tk1k {
    fn pad_for(p: u64) -> [u64; TKBIG_PAD] {
        let mut a = [p ^ 0x3333; TKBIG_PAD];
        a[TKBIG_PAD - 1] = p ^ 0x4444;
        a
    }
}
impl Elem for Tk1k {
    const ETY: &'static str = "tk";
    fn fresh() -> Tk1k {
        let inner = Tk::fresh();
        let p = inner.id() as u64;
        Tk1k { inner, pad: Tk1k::pad_for(p) }
    }
    fn id(&self) -> i64 {
        let p = self.inner.id() as u64;
        if self.pad[0] == p ^ 0x3333 && self.pad[TKBIG_PAD / 2] == p ^ 0x3333 && self.pad[TKBIG_PAD - 1] == p ^ 0x4444 { self.inner.id() } else { -1 }
    }
}
impl Clone for Tk1k {
    fn clone(&self) -> Tk1k {
        let inner = self.inner.clone();
        let p = inner.id() as u64;
        Tk1k { inner, pad: Tk1k::pad_for(p) }
    }
}
impl Default for Tk1k {
    fn default() -> Tk1k {
        let inner = Tk::default();
        let p = inner.id() as u64;
        Tk1k { inner, pad: Tk1k::pad_for(p) }
    }
}
impl std::fmt::Debug for Tk1k {
    fn fmt(&self, f: &mut std::fmt::Formatter) -> std::fmt::Result {
        write!(f, "Tk1k#{}", self.id())
    }
}

/// Plain one-byte element (ids 1..=255 only): no destructor, identity = value.
#[derive(Debug, PartialEq, Eq)]
pub struct P1(pub u8);
impl Elem for P1 {
    const ETY: &'static str = "plain";
    fn fresh() -> P1 {
        let id = next_id();
        assert!(id < 256, "HARNESS: P1 ids exhausted");
        P1(id as u8)
    }
    fn id(&self) -> i64 {
        self.0 as i64
    }
}
impl Clone for P1 {
    fn clone(&self) -> P1 {
        let n = P1::fresh();
        ev!("\"ev\":\"clone\",\"src\":{},\"new\":{},\"nth\":-1", self.0, n.0);
        n
    }
}
impl Default for P1 {
    fn default() -> P1 {
        let n = P1::fresh();
        ev!("\"ev\":\"mkdef\",\"id\":{}", n.0);
        n
    }
}

/// Plain element: no destructor, identity = value.  Ledger obligations are vacuous for it.
/// (Not Copy: its Clone is observable, like Tk's, and gives the clone its own identity.)
#[derive(Debug, PartialEq, Eq)]
pub struct Pl(pub u64);
impl Clone for Pl {
    fn clone(&self) -> Pl {
        let n = Pl::fresh();
        ev!("\"ev\":\"clone\",\"src\":{},\"new\":{},\"nth\":-1", self.0, n.0);
        n
    }
}
impl Default for Pl {
    fn default() -> Pl {
        let n = Pl::fresh();
        ev!("\"ev\":\"mkdef\",\"id\":{}", n.0);
        n
    }
}
impl Elem for Pl {
    const ETY: &'static str = "plain";
    fn fresh() -> Pl {
        Pl(next_id() as u64)
    }
    fn id(&self) -> i64 {
        self.0 as i64
    }
}

/// Zero-sized element WITHOUT a destructor whose Clone and Default are nevertheless observable: no drop glue
/// and no bytes, yet not Copy - a bitwise copy is not a clone of it.  Anonymous like TkZ.
#[derive(Debug)]
pub struct PlZ;
impl Elem for PlZ {
    const ETY: &'static str = "plz";
    fn fresh() -> PlZ {
        PlZ
    }
    fn id(&self) -> i64 {
        0
    }
}
impl Clone for PlZ {
    fn clone(&self) -> PlZ {
        ev!("\"ev\":\"clone\",\"src\":0,\"new\":0,\"nth\":-1");
        PlZ
    }
}
impl Default for PlZ {
    fn default() -> PlZ {
        ev!("\"ev\":\"mkdef\",\"id\":0");
        PlZ
    }
}

/// Zero-sized drop-tracked element: no identity; creations, clones and destructor runs are
/// logged anonymously (id 0) and the specification infers which element each one is.
pub struct TkZ;
impl Elem for TkZ {
    const ETY: &'static str = "zst";
    fn fresh() -> TkZ {
        TkZ
    }
    fn id(&self) -> i64 {
        0
    }
}
impl Drop for TkZ {
    fn drop(&mut self) {
        ev!("\"ev\":\"drop\",\"id\":0,\"panic\":false");
    }
}
impl Clone for TkZ {
    fn clone(&self) -> TkZ {
        ev!("\"ev\":\"clone\",\"src\":0,\"new\":0,\"nth\":-1");
        TkZ
    }
}
impl Default for TkZ {
    fn default() -> TkZ {
        ev!("\"ev\":\"mkdef\",\"id\":0");
        TkZ
    }
}
impl std::fmt::Debug for TkZ {
    fn fmt(&self, f: &mut std::fmt::Formatter) -> std::fmt::Result {
        write!(f, "TkZ")
    }
}

macro_rules! serde_elem {
    ($t:ty) => {
        impl serde::Serialize for $t {
            fn serialize<S: serde::Serializer>(&self, s: S) -> Result<S::Ok, S::Error> {
                s.serialize_u32(Elem::id(self) as u32)
            }
        }
        impl<'de> serde::Deserialize<'de> for $t {
            fn deserialize<D: serde::Deserializer<'de>>(d: D) -> Result<$t, D::Error> {
                let _wire = <u32 as serde::Deserialize>::deserialize(d)?;
                Ok(crate::serde_drv::mkde::<$t>())
            }
        }
    };
}
serde_elem!(Tk);
serde_elem!(Pl);
serde_elem!(TkZ);
serde_elem!(P1);
serde_elem!(PlZ);
impl serde::Serialize for Tk1k {
    fn serialize<S: serde::Serializer>(&self, s: S) -> Result<S::Ok, S::Error> {
        s.serialize_u32(Elem::id(self) as u32)
    }
}
impl<'de> serde::Deserialize<'de> for Tk1k {
    fn deserialize<D: serde::Deserializer<'de>>(d: D) -> Result<Tk1k, D::Error> {
        let _wire = <u32 as serde::Deserialize>::deserialize(d)?;
        Ok(crate::serde_drv::mkde::<Tk1k>())
    }
}
impl serde::Serialize for Tk24 {
    fn serialize<S: serde::Serializer>(&self, s: S) -> Result<S::Ok, S::Error> {
        s.serialize_u32(Elem::id(self) as u32)
    }
}
impl<'de> serde::Deserialize<'de> for Tk24 {
    fn deserialize<D: serde::Deserializer<'de>>(d: D) -> Result<Tk24, D::Error> {
        let _wire = <u32 as serde::Deserialize>::deserialize(d)?;
        Ok(crate::serde_drv::mkde::<Tk24>())
    }
}
