//! Serde (C17): a recording Serializer, a scripted Deserializer / SeqAccess, and real formats.
use crate::elems::Elem;
use crate::ev;
use serde::de::value::Error as DeError;
use serde::de::{DeserializeSeed, Deserializer, IntoDeserializer, SeqAccess, Visitor};
use serde::ser::{self, Serialize, Serializer};

// ---- recording serializer -------------------------------------------------------------------
#[derive(Default)]
pub struct SerLog {
    pub tuple_len: i64,
    pub elems: Vec<i64>,
    pub ended: bool,
    pub other: i64,
}
pub struct RecSer<'a>(pub &'a mut SerLog);
pub struct RecTuple<'a>(&'a mut SerLog);
/// serializer for one element: records the u32 it is given (the element id)
struct ElemSer<'a>(&'a mut SerLog);

#[derive(Debug)]
pub struct SerErr;
impl std::fmt::Display for SerErr {
    fn fmt(&self, f: &mut std::fmt::Formatter) -> std::fmt::Result {
        write!(f, "SerErr")
    }
}
impl std::error::Error for SerErr {}
impl ser::Error for SerErr {
    fn custom<T: std::fmt::Display>(_: T) -> Self {
        SerErr
    }
}

macro_rules! other_scalar {
    ($($m:ident : $t:ty),*) => { $( fn $m(self, _v: $t) -> Result<(), SerErr> { self.0.other += 1; Ok(()) } )* };
}
macro_rules! ser_impl {
    ($name:ident, $tuple_body:expr, $u32_body:expr) => {
        impl<'a> Serializer for $name<'a> {
            type Ok = ();
            type Error = SerErr;
            type SerializeSeq = ser::Impossible<(), SerErr>;
            type SerializeTuple = RecTuple<'a>;
            type SerializeTupleStruct = ser::Impossible<(), SerErr>;
            type SerializeTupleVariant = ser::Impossible<(), SerErr>;
            type SerializeMap = ser::Impossible<(), SerErr>;
            type SerializeStruct = ser::Impossible<(), SerErr>;
            type SerializeStructVariant = ser::Impossible<(), SerErr>;
            other_scalar!(serialize_bool: bool, serialize_i8: i8, serialize_i16: i16, serialize_i32: i32, serialize_i64: i64, serialize_u8: u8, serialize_u16: u16,
                          serialize_u64: u64, serialize_f32: f32, serialize_f64: f64, serialize_char: char, serialize_str: &str, serialize_bytes: &[u8]);
            fn serialize_u32(self, v: u32) -> Result<(), SerErr> {
                let f: fn(&mut SerLog, u32) = $u32_body;
                f(self.0, v);
                Ok(())
            }
            fn serialize_none(self) -> Result<(), SerErr> { self.0.other += 1; Ok(()) }
            fn serialize_some<T: ?Sized + Serialize>(self, _v: &T) -> Result<(), SerErr> { self.0.other += 1; Ok(()) }
            fn serialize_unit(self) -> Result<(), SerErr> { self.0.other += 1; Ok(()) }
            fn serialize_unit_struct(self, _n: &'static str) -> Result<(), SerErr> { self.0.other += 1; Ok(()) }
            fn serialize_unit_variant(self, _n: &'static str, _i: u32, _v: &'static str) -> Result<(), SerErr> { self.0.other += 1; Ok(()) }
            fn serialize_newtype_struct<T: ?Sized + Serialize>(self, _n: &'static str, _v: &T) -> Result<(), SerErr> { self.0.other += 1; Ok(()) }
            fn serialize_newtype_variant<T: ?Sized + Serialize>(self, _n: &'static str, _i: u32, _v: &'static str, _x: &T) -> Result<(), SerErr> { self.0.other += 1; Ok(()) }
            fn serialize_seq(self, _len: Option<usize>) -> Result<Self::SerializeSeq, SerErr> { self.0.other += 1; Err(SerErr) }
            fn serialize_tuple(self, len: usize) -> Result<RecTuple<'a>, SerErr> {
                let f: fn(&mut SerLog, usize) = $tuple_body;
                f(self.0, len);
                Ok(RecTuple(self.0))
            }
            fn serialize_tuple_struct(self, _n: &'static str, _l: usize) -> Result<Self::SerializeTupleStruct, SerErr> { self.0.other += 1; Err(SerErr) }
            fn serialize_tuple_variant(self, _n: &'static str, _i: u32, _v: &'static str, _l: usize) -> Result<Self::SerializeTupleVariant, SerErr> { self.0.other += 1; Err(SerErr) }
            fn serialize_map(self, _l: Option<usize>) -> Result<Self::SerializeMap, SerErr> { self.0.other += 1; Err(SerErr) }
            fn serialize_struct(self, _n: &'static str, _l: usize) -> Result<Self::SerializeStruct, SerErr> { self.0.other += 1; Err(SerErr) }
            fn serialize_struct_variant(self, _n: &'static str, _i: u32, _v: &'static str, _l: usize) -> Result<Self::SerializeStructVariant, SerErr> { self.0.other += 1; Err(SerErr) }
        }
    };
}
ser_impl!(RecSer, |l, len| l.tuple_len = len as i64, |l, _v| l.other += 1);
ser_impl!(ElemSer, |l, _len| l.other += 1, |l, v| l.elems.push(v as i64));

impl<'a> ser::SerializeTuple for RecTuple<'a> {
    type Ok = ();
    type Error = SerErr;
    fn serialize_element<T: ?Sized + Serialize>(&mut self, value: &T) -> Result<(), SerErr> {
        value.serialize(ElemSer(self.0))
    }
    fn end(self) -> Result<(), SerErr> {
        self.0.ended = true;
        Ok(())
    }
}

// ---- scripted deserializer --------------------------------------------------------------------
pub struct ScriptDe {
    pub script: Vec<u8>, // 1 Some, 0 None, 3 Err; past the end: None
    pub hints: HintMode,
    pub human_readable: bool, // what the format says about itself; the outcome must not depend on it
}
#[derive(Clone)]
pub enum HintMode {
    Absent,
    Truthful,
    Fixed(Vec<i64>), // the k-th size_hint call answers Fixed[k] (last repeats); -1 = None
}
struct ScriptSeq {
    script: Vec<u8>,
    pos: usize,
    hints: HintMode,
    hint_calls: usize,
}

impl<'de> Deserializer<'de> for ScriptDe {
    type Error = DeError;
    fn deserialize_any<V: Visitor<'de>>(self, visitor: V) -> Result<V::Value, DeError> {
        ev!("\"ev\":\"de_tuple\",\"len\":-1");
        visitor.visit_seq(ScriptSeq { script: self.script, pos: 0, hints: self.hints, hint_calls: 0 })
    }
    fn deserialize_tuple<V: Visitor<'de>>(self, len: usize, visitor: V) -> Result<V::Value, DeError> {
        ev!("\"ev\":\"de_tuple\",\"len\":{}", len);
        visitor.visit_seq(ScriptSeq { script: self.script, pos: 0, hints: self.hints, hint_calls: 0 })
    }
    fn is_human_readable(&self) -> bool {
        self.human_readable
    }
    serde::forward_to_deserialize_any! {
        bool i8 i16 i32 i64 i128 u8 u16 u32 u64 u128 f32 f64 char str string bytes byte_buf option unit unit_struct
        newtype_struct seq tuple_struct map struct enum identifier ignored_any
    }
}

impl<'de> SeqAccess<'de> for ScriptSeq {
    type Error = DeError;
    fn next_element_seed<S: DeserializeSeed<'de>>(&mut self, seed: S) -> Result<Option<S::Value>, DeError> {
        ev!("\"ev\":\"selem\"");
        let a = self.script.get(self.pos).copied().unwrap_or(0);
        self.pos += 1;
        match a {
            1 => {
                let v = seed.deserialize(7u32.into_deserializer())?;
                ev!("\"ev\":\"selem_ret\",\"kind\":\"some\"");
                Ok(Some(v))
            }
            3 => {
                ev!("\"ev\":\"selem_ret\",\"kind\":\"err\"");
                Err(serde::de::Error::custom("element does not parse"))
            }
            _ => {
                ev!("\"ev\":\"selem_ret\",\"kind\":\"none\"");
                Ok(None)
            }
        }
    }
    fn size_hint(&self) -> Option<usize> {
        let h: i64 = match &self.hints {
            HintMode::Absent => -1,
            HintMode::Truthful => {
                let rest = &self.script[self.pos.min(self.script.len())..];
                rest.iter().take_while(|x| **x == 1 || **x == 3).count() as i64
            }
            HintMode::Fixed(v) => {
                // &self: count calls through the position of the script instead of interior mutability
                let k = if self.pos == 0 { 0 } else { 1.min(v.len() - 1) };
                let _ = self.hint_calls;
                v[k]
            }
        };
        ev!("\"ev\":\"shint\",\"val\":{}", h);
        if h < 0 { None } else { Some(h as usize) }
    }
}

pub fn mkde<E: Elem>() -> E {
    let e = E::fresh();
    ev!("\"ev\":\"mkde\",\"id\":{}", e.id());
    e
}
