//! Script interpreter: executes operation scripts (emitted by TLC or by the seeded random
//! driver) against the real generic-array code over a pool of dynamically typed values, and
//! logs one event per observable step.  No expected result is computed here: TLC is the only
//! comparison engine.
use crate::elems::*;
use crate::events::{ids, jstr};
use crate::vals::*;
use crate::{ev, with_arr, with_arr2, with_box, with_box2, with_iter, with_iter2, with_len, with_nest};
use generic_array::functional::FunctionalSequence;
use generic_array::sequence::GenericSequence;
use generic_array::GenericArray;
use serde_json::Value as J;
use std::cell::Cell;
use std::collections::HashMap;
use std::panic::{catch_unwind, AssertUnwindSafe};

pub fn panic_msg(p: &Box<dyn std::any::Any + Send>) -> String {
    if p.is::<Injected>() {
        "injected".into()
    } else if let Some(s) = p.downcast_ref::<&str>() {
        s.to_string()
    } else if let Some(s) = p.downcast_ref::<String>() {
        s.clone()
    } else {
        "?".into()
    }
}

pub struct Desc {
    pub kind: &'static str,
    pub items: Vec<i64>,
    pub inner: usize,
    pub blk: i64,
}

pub fn describe<E: Elem>(v: &Val<E>) -> Desc {
    let d = |kind, items, inner, blk| Desc { kind, items, inner, blk };
    let idv = |s: &[E]| s.iter().map(|e| e.id()).collect::<Vec<_>>();
    if let Some(x) = with_arr!(v, a => Some(d("arr", idv(a.as_slice()), 0, 0)), None) {
        return x;
    }
    if let Some(x) = with_iter!(v, a => Some(d("iter", idv(a.as_slice()), 0, 0)), None) {
        return x;
    }
    if let Some(x) = with_box!(v, a => Some(d("box", idv(a.as_slice()), 0, crate::alloc::block_of(a.as_ptr() as *const u8))), None) {
        return x;
    }
    if let Some(items) = nat_items(v) {
        return d("native", items, 0, 0);
    }
    match v {
        Val::Tup(f, _) => d("tuple", idv(f), 0, 0),
        Val::Vec(x) => d("vec", idv(x), 0, crate::alloc::block_of(x.as_ptr() as *const u8)),
        Val::BSlice(x) => d("bslice", idv(x), 0, crate::alloc::block_of(x.as_ptr() as *const u8)),
        Val::VIter(x) => d("viter", idv(x.as_slice()), 0, crate::alloc::block_of(x.as_slice().as_ptr() as *const u8)),
        _ => {
            let (n, _m) = nest_shape(v);
            d("nested", nest_items(v), n, 0)
        }
    }
}

fn iter_obs<E: Elem>(h: usize, v: &Val<E>) -> String {
    let (len, lo, hi) = with_iter!(v, it => {
        let (lo, hi) = it.size_hint();
        (it.len() as i64, lo as i64, hi.map(|x| x as i64).unwrap_or(-1))
    }, (-1, -1, -1));
    let d = describe(v);
    format!("{{\"h\":{},\"items\":{},\"len\":{},\"lo\":{},\"hi\":{}}}", h, ids(&d.items), len, lo, hi)
}

/// What a call produced.
pub struct Outcome<E: Elem> {
    pub outs: Vec<Val<E>>,
    pub vals: Vec<E>,
    pub res: i64,
    pub err: bool,
    pub dbg: String,
    pub dbgref: String,
}
impl<E: Elem> Outcome<E> {
    fn new() -> Self {
        let _b = crate::events::Bypass::new();
        Outcome { outs: Vec::with_capacity(2), vals: Vec::with_capacity(2), res: -1, err: false, dbg: String::new(), dbgref: String::new() }
    }
    fn outs<const K: usize>(o: [Val<E>; K]) -> Self {
        let mut r = Self::new();
        for v in o {
            r.outs.push(v);
        }
        r
    }
    fn two(a: Val<E>, b: Val<E>) -> Self {
        let mut r = Self::new();
        r.outs.push(a);
        r.outs.push(b);
        r
    }
}

/// How harness closures treat a by-value argument.
pub trait CbArg<E: Elem> {
    const BYVAL: bool;
    fn aid(&self) -> i64;
    /// by-value arguments are released and dropped by the closure (logged); references are not
    fn consume(self);
    /// by-value argument passed through as the result (only valid when BYVAL)
    fn pass(self) -> Option<E>;
}
impl<E: Elem> CbArg<E> for E {
    const BYVAL: bool = true;
    fn aid(&self) -> i64 {
        self.id()
    }
    fn consume(self) {
        ev!("\"ev\":\"release_elem\",\"id\":{}", self.id());
        drop(self);
    }
    fn pass(self) -> Option<E> {
        Some(self)
    }
}
impl<'a, E: Elem> CbArg<E> for &'a E {
    const BYVAL: bool = false;
    fn aid(&self) -> i64 {
        (**self).id()
    }
    fn consume(self) {}
    fn pass(self) -> Option<E> {
        None
    }
}
impl<'a, E: Elem> CbArg<E> for &'a mut E {
    const BYVAL: bool = false;
    fn aid(&self) -> i64 {
        (**self).id()
    }
    fn consume(self) {}
    fn pass(self) -> Option<E> {
        None
    }
}

pub struct CbCtx {
    pub k: Cell<i64>,
    pub panic_at: i64,
    /// searching consumers: the call index at which the scripted predicate gives the answer that ends the search
    pub stop_at: i64,
    /// callback k passes its (first by-value) argument through as the result when k % 2 == pass_mod
    pub pass_mod: i64,
}
impl CbCtx {
    fn cb1<E: Elem, A: CbArg<E>>(&self, a: A) -> E {
        let k = self.k.get();
        ev!("\"ev\":\"cb\",\"k\":{},\"idx\":-1,\"args\":[{}],\"acc\":0,\"pv\":-1", k, a.aid());
        if k == self.panic_at {
            a.consume();
            ev!("\"ev\":\"cb_ret\",\"k\":{},\"ret\":[],\"acc\":0,\"panic\":true", k);
            injected_panic();
        }
        let y = if A::BYVAL && self.pass_mod >= 0 && k % 2 == self.pass_mod {
            a.pass().unwrap()
        } else {
            a.consume();
            E::fresh()
        };
        ev!("\"ev\":\"cb_ret\",\"k\":{},\"ret\":[{}],\"acc\":0,\"panic\":false", k, y.id());
        self.k.set(k + 1);
        y
    }
    fn cb2<E: Elem, A: CbArg<E>, B: CbArg<E>>(&self, a: A, b: B) -> E {
        let k = self.k.get();
        ev!("\"ev\":\"cb\",\"k\":{},\"idx\":-1,\"args\":[{},{}],\"acc\":0,\"pv\":-1", k, a.aid(), b.aid());
        if k == self.panic_at {
            a.consume();
            b.consume();
            ev!("\"ev\":\"cb_ret\",\"k\":{},\"ret\":[],\"acc\":0,\"panic\":true", k);
            injected_panic();
        }
        let y = if A::BYVAL && self.pass_mod >= 0 && k % 2 == self.pass_mod {
            b.consume();
            a.pass().unwrap()
        } else if B::BYVAL && self.pass_mod >= 0 && k % 2 == self.pass_mod {
            a.consume();
            b.pass().unwrap()
        } else {
            a.consume();
            b.consume();
            E::fresh()
        };
        ev!("\"ev\":\"cb_ret\",\"k\":{},\"ret\":[{}],\"acc\":0,\"panic\":false", k, y.id());
        self.k.set(k + 1);
        y
    }
    /// zip of a tracked array with a plain (no drop glue) array of another element type
    fn cbx<E: Elem, A: CbArg<E>>(&self, a: A, v: u64) -> E {
        let k = self.k.get();
        ev!("\"ev\":\"cb\",\"k\":{},\"idx\":-1,\"args\":[{}],\"acc\":0,\"pv\":{}", k, a.aid(), v);
        if k == self.panic_at {
            a.consume();
            ev!("\"ev\":\"cb_ret\",\"k\":{},\"ret\":[],\"acc\":0,\"panic\":true", k);
            injected_panic();
        }
        a.consume();
        let y = E::fresh();
        ev!("\"ev\":\"cb_ret\",\"k\":{},\"ret\":[{}],\"acc\":0,\"panic\":false", k, y.id());
        self.k.set(k + 1);
        y
    }
    fn gen<E: Elem>(&self, i: usize) -> E {
        let k = self.k.get();
        ev!("\"ev\":\"cb\",\"k\":{},\"idx\":{},\"args\":[],\"acc\":0,\"pv\":-1", k, i);
        if k == self.panic_at {
            ev!("\"ev\":\"cb_ret\",\"k\":{},\"ret\":[],\"acc\":0,\"panic\":true", k);
            injected_panic();
        }
        let y = E::fresh();
        ev!("\"ev\":\"cb_ret\",\"k\":{},\"ret\":[{}],\"acc\":0,\"panic\":false", k, y.id());
        self.k.set(k + 1);
        y
    }
    /// scripted predicate of position / any / all / find ...: `ending` is the answer that ends the search
    fn pred<E: Elem, A: CbArg<E>>(&self, a: A, ending: bool) -> bool {
        let k = self.k.get();
        ev!("\"ev\":\"cb\",\"k\":{},\"idx\":-1,\"args\":[{}],\"acc\":0,\"pv\":-1", k, a.aid());
        a.consume();
        if k == self.panic_at {
            ev!("\"ev\":\"cb_ret\",\"k\":{},\"ret\":[],\"acc\":0,\"panic\":true", k);
            injected_panic();
        }
        let stop = k == self.stop_at;
        ev!("\"ev\":\"cb_ret\",\"k\":{},\"ret\":[],\"acc\":{},\"panic\":false", k, stop as i64);
        self.k.set(k + 1);
        if stop { ending } else { !ending }
    }
    fn fold<E: Elem, A: CbArg<E>>(&self, acc: i64, a: A) -> i64 {
        let k = self.k.get();
        ev!("\"ev\":\"cb\",\"k\":{},\"idx\":-1,\"args\":[{}],\"acc\":{},\"pv\":-1", k, a.aid(), acc);
        a.consume();
        if k == self.panic_at {
            ev!("\"ev\":\"cb_ret\",\"k\":{},\"ret\":[],\"acc\":0,\"panic\":true", k);
            injected_panic();
        }
        // a non-commutative accumulator so that the threading order is observable
        let acc2 = (acc * 31 + k + 7) % 1_000_003;
        ev!("\"ev\":\"cb_ret\",\"k\":{},\"ret\":[],\"acc\":{},\"panic\":false", k, acc2);
        self.k.set(k + 1);
        acc2
    }
}

/// A scripted, possibly lying, possibly non-fused, possibly panicking source iterator.
pub struct ScriptedIter<E: Elem> {
    pub script: Vec<u8>, // 1 = Some, 0 = None, 2 = panic; past the end: None
    pub pos: usize,
    pub hint: Option<(usize, Option<usize>)>, // None = truthful
    /// a value with a destructor that the source owns (like the unread tail of a `vec.into_iter().take(n)`): dropped
    /// exactly when the source is dropped
    pub guard: Vec<E>,
    pub _p: std::marker::PhantomData<E>,
}
impl<E: Elem> Iterator for ScriptedIter<E> {
    type Item = E;
    fn next(&mut self) -> Option<E> {
        ev!("\"ev\":\"poll\"");
        let a = self.script.get(self.pos).copied().unwrap_or(0);
        self.pos += 1;
        match a {
            1 => {
                let e = E::fresh();
                ev!("\"ev\":\"poll_ret\",\"some\":[{}],\"panic\":false", e.id());
                Some(e)
            }
            2 => {
                ev!("\"ev\":\"poll_ret\",\"some\":[],\"panic\":true");
                injected_panic();
            }
            _ => {
                ev!("\"ev\":\"poll_ret\",\"some\":[],\"panic\":false");
                None
            }
        }
    }
    fn size_hint(&self) -> (usize, Option<usize>) {
        let h = match self.hint {
            Some(h) => h,
            None => {
                // truthful: the number of items before the next None
                let rest = &self.script[self.pos.min(self.script.len())..];
                let n = rest.iter().take_while(|x| **x == 1).count();
                (n, Some(n))
            }
        };
        ev!("\"ev\":\"hint\",\"lo\":{},\"hi\":{}", h.0.min(1 << 30), h.1.map(|x| x.min(1 << 30) as i64).unwrap_or(-1));
        h
    }
}

thread_local! {
    /// elements the harness took out of an abandoned consumer (they remain the caller's)
    static KEPT: std::cell::RefCell<Vec<(i64, Box<dyn std::any::Any>)>> = std::cell::RefCell::new(Vec::new());
}

pub struct Interp<E: Elem> {
    pub pool: HashMap<usize, Val<E>>,
    pub bag: Vec<(i64, E)>,
    pub nexth: usize,
}

fn ju(j: &J, k: &str) -> Option<i64> {
    j.get(k).and_then(|x| x.as_i64())
}
fn js<'a>(j: &'a J, k: &str) -> &'a str {
    j.get(k).and_then(|x| x.as_str()).unwrap_or("")
}
fn jarr(j: &J, k: &str) -> Vec<i64> {
    j.get(k).and_then(|x| x.as_array()).map(|a| a.iter().filter_map(|x| x.as_i64()).collect()).unwrap_or_default()
}
fn jsarr(j: &J, k: &str) -> Vec<String> {
    j.get(k).and_then(|x| x.as_array()).map(|a| a.iter().filter_map(|x| x.as_str().map(|s| s.to_string())).collect()).unwrap_or_default()
}

impl<E: Elem> Interp<E> {
    pub fn new() -> Self {
        Interp { pool: HashMap::new(), bag: Vec::new(), nexth: 1 }
    }

    fn newh(&mut self) -> usize {
        let h = self.nexth;
        self.nexth += 1;
        h
    }

    fn log_mk(&mut self, v: Val<E>) {
        let h = self.newh();
        let d = describe(&v);
        ev!("\"ev\":\"mk\",\"h\":{},\"kind\":\"{}\",\"items\":{},\"inner\":{},\"blk\":{}", h, d.kind, ids(&d.items), d.inner, d.blk);
        self.pool.insert(h, v);
    }

    /// Run one case (a JSON scenario).  Everything is logged; nothing is asserted.
    pub fn run_case(&mut self, scn: &J) {
        reset_ids();
        self.nexth = 1;
        {
            let mut f = FUSES.lock().unwrap();
            f.drop = jarr(scn, "fuse_drop");
            f.clone = jarr(scn, "fuse_clone");
            f.default = jarr(scn, "fuse_default");
        }
        let rec = scn.get("alloc").and_then(|x| x.as_bool()).unwrap_or(false);
        crate::alloc::reset();
        crate::events::RECORD_ALLOC.store(rec, std::sync::atomic::Ordering::SeqCst);
        ev!("\"ev\":\"case_start\",\"case\":{},\"prop\":{},\"ety\":\"{}\",\"rec\":{}", jstr(js(scn, "case")), jstr(js(scn, "prop")), E::ETY, rec);
        crate::events::flush();
        let steps = scn.get("steps").and_then(|x| x.as_array()).cloned().unwrap_or_default();
        for st in steps.iter() {
            self.step(st);
        }
        // the caller lets go of everything it still holds, in handle order
        let mut hs: Vec<usize> = self.pool.keys().copied().collect();
        hs.sort();
        for h in hs {
            self.release(h);
        }
        let mut es: Vec<i64> = self.bag.iter().map(|x| x.0).collect();
        es.sort();
        for e in es {
            self.release_elem(e);
        }
        ev!("\"ev\":\"case_end\"");
        crate::events::RECORD_ALLOC.store(false, std::sync::atomic::Ordering::SeqCst);
        crate::events::flush();
    }

    fn release(&mut self, h: usize) {
        if let Some(v) = self.pool.remove(&h) {
            ev!("\"ev\":\"release\",\"h\":{}", h);
            let r = catch_unwind(AssertUnwindSafe(move || drop(v)));
            ev!("\"ev\":\"released\",\"h\":{},\"panicked\":{}", h, r.is_err());
        }
    }

    fn unbag(&mut self, id: i64) -> Option<E> {
        let id = if (E::ETY == "zst" || E::ETY == "plz") { 0 } else { id };
        let p = self.bag.iter().position(|x| x.0 == id)?;
        Some(self.bag.remove(p).1)
    }

    fn release_elem(&mut self, id: i64) {
        if let Some(e) = self.unbag(id) {
            ev!("\"ev\":\"release_elem\",\"id\":{}", e.id());
            let _ = catch_unwind(AssertUnwindSafe(move || drop(e)));
        }
    }

    fn step(&mut self, st: &J) {
        let op = js(st, "op").to_string();
        match op.as_str() {
            "mk" => {
                let n = ju(st, "n").unwrap_or(0) as usize;
                let kind = js(st, "kind");
                let _s = crate::alloc::LibScope::enter();
                let v: Val<E> = match kind {
                    "" | "arr" => with_len!(n, N => GenericArray::<E, N>::generate(|_| E::fresh()).wrap(), panic!("HARNESS: mk arr {}", n)),
                    "box" => with_len!(n, N => Box::new(GenericArray::<E, N>::generate(|_| E::fresh())).wrap(), panic!("HARNESS: mk box {}", n)),
                    "native" => mk_native(n),
                    "tuple" => Val::Tup((0..n).map(|_| E::fresh()).collect(), n),
                    "vec" => {
                        let cap = ju(st, "cap").unwrap_or(0) as usize;
                        let mut v = Vec::with_capacity(n + cap);
                        for _ in 0..n {
                            v.push(E::fresh());
                        }
                        Val::Vec(v)
                    }
                    "bslice" => Val::BSlice((0..n).map(|_| E::fresh()).collect::<Vec<_>>().into_boxed_slice()),
                    "nested" => mk_nested(ju(st, "inner").unwrap_or(0) as usize, n),
                    _ => panic!("HARNESS: mk kind {}", kind),
                };
                drop(_s);
                self.log_mk(v);
            }
            "mk_elem" => {
                let e = E::fresh();
                ev!("\"ev\":\"mk_elem\",\"id\":{}", e.id());
                self.bag.push((e.id(), e));
            }
            "release" => {
                let h = ju(st, "h").unwrap() as usize;
                self.release(h);
            }
            "release_elem" => {
                let id = match ju(st, "id") {
                    Some(id) => id,
                    None => {
                        let mut have: Vec<i64> = self.bag.iter().map(|x| x.0).collect();
                        have.sort();
                        have[ju(st, "pick").unwrap_or(0) as usize]
                    }
                };
                self.release_elem(id);
            }
            _ => self.call(&op, st),
        }
    }

    fn call(&mut self, op: &str, st: &J) {
        let recv: Vec<usize> = jarr(st, "recv").into_iter().map(|x| x as usize).collect();
        let mut forms = jsarr(st, "form");
        while forms.len() < recv.len() {
            forms.push(default_form(op).to_string());
        }
        let byval: Vec<bool> = forms.iter().map(|f| f == "own").collect();
        let arg = ju(st, "arg").unwrap_or(-1);
        let mut elem_ids: Vec<i64> = jarr(st, "elems").into_iter().map(|x| if (E::ETY == "zst" || E::ETY == "plz") { 0 } else { x }).collect();
        if let Some(p) = ju(st, "pick") {
            // the p-th smallest element the caller holds
            if p >= 0 {
                let mut have: Vec<i64> = self.bag.iter().map(|x| x.0).collect();
                have.sort();
                elem_ids = vec![*have.get(p as usize).unwrap_or_else(|| panic!("HARNESS: pick {}", p))];
            }
        }
        let panic_at = ju(st, "panic_at").unwrap_or(-1);
        let pass_mod = ju(st, "pass_mod").unwrap_or(-1);
        let okind = {
            let k = js(st, "okind");
            if k.is_empty() { "arr" } else { k }
        }
        .to_string();
        // take the operands out of the pool for the duration of the call
        let mut vals: Vec<Val<E>> = recv.iter().map(|h| self.pool.remove(h).unwrap_or_else(|| panic!("HARNESS: no value {}", h))).collect();
        let elems: Vec<E> = elem_ids.iter().map(|id| self.unbag(*id).unwrap_or_else(|| panic!("HARNESS: no elem {}", id))).collect();
        let n = match ju(st, "n") {
            Some(n) => n,
            None if op == "clone_from" || op == "iter_clone_from" => vals.get(1).map(|v| describe(v).items.len() as i64).unwrap_or(0),
            None => vals.first().map(|v| describe(v).items.len() as i64).unwrap_or(0),
        };
        let mut truthful = st.get("hint").is_none();
        let (okind, arg) = if op == "deserialize" || op == "deserialize_in_place" {
            truthful = ju(st, "bad_at").unwrap_or(-1) < 0;
            if js(st, "src") == "script" { ("script".to_string(), -1) } else { ("opaque".to_string(), ju(st, "l").unwrap_or(0)) }
        } else {
            (okind, arg)
        };
        let spare = vals.iter().any(|v| matches!(v, Val::Vec(x) if x.capacity() > x.len()));
        let okind = if okind.starts_with("arr_via") { "arr".to_string() } else { okind };
        let okind_exec = { let k = js(st, "okind"); if k.is_empty() { "arr".to_string() } else { k.to_string() } };
        let logged_op = match op {
            "builder_abandon" | "intrusive_abandon" => "generate",
            "builder_extend" | "intrusive_extend" => "builder_extend",
            "consumer_abandon" | "zipx_plain_out" | "map_plain_out" => "fold",
            "map_from_plain" | "zip_from_plain" => "generate",
            "iter_for_each" => "iter_fold",
            x => x,
        };
        ev!(
            "\"ev\":\"call\",\"op\":\"{}\",\"recv\":{},\"byval\":[{}],\"arg\":{},\"elems\":{},\"n\":{},\"okind\":\"{}\",\"truthful\":{},\"spare\":{}",
            logged_op,
            ids(&recv.iter().map(|x| *x as i64).collect::<Vec<_>>()),
            byval.iter().map(|b| b.to_string()).collect::<Vec<_>>().join(","),
            arg.min(i32::MAX as i64),
            ids(&elem_ids),
            n,
            okind,
            truthful,
            spare
        );
        let ctx = CbCtx { k: Cell::new(0), panic_at, pass_mod, stop_at: if op.starts_with("iter_") { arg } else { -1 } };
        let script = st.clone();
        let r = {
            let vals_ref = &mut vals;
            let forms_ref = &forms;
            crate::alloc::CALL_ALLOCS.store(0, std::sync::atomic::Ordering::SeqCst);
            if let Some(k) = ju(st, "fail_at") {
                crate::alloc::FAIL_AT.store(k as usize, std::sync::atomic::Ordering::SeqCst);
            }
            let r = catch_unwind(AssertUnwindSafe(move || {
                let _s = crate::alloc::LibScope::enter();
                exec::<E>(op, vals_ref, forms_ref, arg, elems, n as usize, &okind_exec, &ctx, &script)
            }));
            crate::alloc::FAIL_AT.store(0, std::sync::atomic::Ordering::SeqCst);
            r
        };
        // by-reference operands go back to the pool whatever happened
        let mut back: Vec<(usize, Val<E>)> = vec![];
        for (i, v) in vals.into_iter().enumerate() {
            match v {
                Val::Tup(ref f, 0) if f.is_empty() && byval[i] => {} // moved-out placeholder
                v => {
                    if !byval[i] {
                        back.push((recv[i], v))
                    } else {
                        // a by-value operand that the operation did not take (cannot happen)
                        std::mem::forget(v);
                    }
                }
            }
        }
        let mut obs = String::from("[");
        for (j, (h, v)) in back.iter().enumerate() {
            if j > 0 {
                obs.push(',');
            }
            obs.push_str(&iter_obs(*h, v));
        }
        obs.push(']');
        for (h, v) in back {
            self.pool.insert(h, v);
        }
        KEPT.with(|kpt| {
            for (id, b) in kpt.borrow_mut().drain(..) {
                if let Ok(e) = b.downcast::<E>() {
                    self.bag.push((id, *e));
                }
            }
        });
        match r {
            Ok(o) => {
                let mut outs = String::from("[");
                for (j, v) in o.outs.into_iter().enumerate() {
                    let h = self.newh();
                    let d = describe(&v);
                    if j > 0 {
                        outs.push(',');
                    }
                    outs.push_str(&format!("{{\"h\":{},\"kind\":\"{}\",\"items\":{},\"inner\":{},\"blk\":{}}}", h, d.kind, ids(&d.items), d.inner, d.blk));
                    self.pool.insert(h, v);
                }
                outs.push(']');
                let vids: Vec<i64> = o.vals.iter().map(|e| e.id()).collect();
                for e in o.vals {
                    self.bag.push((e.id(), e));
                }
                ev!(
                    "\"ev\":\"ret\",\"outs\":{},\"vals\":{},\"obs\":{},\"res\":{},\"err\":{},\"dbg\":{},\"dbgref\":{}",
                    outs,
                    ids(&vids),
                    obs,
                    o.res,
                    o.err,
                    jstr(&o.dbg),
                    jstr(&o.dbgref)
                );
            }
            Err(p) => {
                let msg = {
                    let _b = crate::events::Bypass::new();
                    panic_msg(&p)
                };
                drop(p);
                let has = {
                    let _b = crate::events::Bypass::new();
                    // (2 000 000 000 is the trace's code for the unallocatable length 2^50)
                    msg.contains(&format!("expected {} items", if n == 2_000_000_000 { 1i64 << 50 } else { n }))
                };
                ev!("\"ev\":\"unwound\",\"obs\":{},\"msg\":{},\"has_expected_msg\":{}", obs, jstr(&msg), has);
            }
        }
    }
}

fn default_form(op: &str) -> &'static str {
    match op {
        "serialize" => "ref",
        "next" | "next_back" | "nth" | "nth_back" | "len" | "size_hint" | "as_slice" | "as_mut_swap" | "debug" | "iter_clone" | "clone" | "box_clone" | "clone_from" | "iter_clone_from" => "ref",
        "iter_position" | "iter_rposition" | "iter_any" | "iter_all" | "iter_find" | "iter_rfind" | "iter_find_map" | "deserialize_in_place" => "ref",
        _ => "own",
    }
}

/// Placeholder left in the operand vector for a by-value operand that was moved into the call.
fn moved<E: Elem>() -> Val<E> {
    Val::Tup(Vec::new(), 0)
}
fn take<E: Elem>(vals: &mut Vec<Val<E>>, i: usize) -> Val<E> {
    std::mem::replace(&mut vals[i], moved())
}

#[allow(clippy::too_many_arguments)]
fn exec<E: Elem>(op: &str, vals: &mut Vec<Val<E>>, forms: &[String], arg: i64, mut elems: Vec<E>, n: usize, okind: &str, ctx: &CbCtx, st: &J) -> Outcome<E> {
    let bad = || -> ! { panic!("HARNESS: operand kind mismatch for {}", op) };
    // 2^31 - 1 stands for usize::MAX; 2_000_000_000 + j stands for 2^32 + j (an index whose low 32 bits look valid):
    // the specification's integers are 32-bit, and for it both are simply "beyond every length"
    let uarg = if arg < 0 {
        0usize
    } else if arg >= i32::MAX as i64 {
        usize::MAX
    } else if arg >= 2_000_000_000 {
        (1usize << 32) + (arg - 2_000_000_000) as usize
    } else {
        arg as usize
    };
    match op {
        // ---- sequence operations ------------------------------------------------------
        "append" => Outcome::outs([op_append(take(vals, 0), elems.pop().unwrap())]),
        "prepend" => Outcome::outs([op_prepend(take(vals, 0), elems.pop().unwrap())]),
        "pop_back" => {
            let (v, x) = op_pop_back(take(vals, 0));
            let mut o = Outcome::outs([v]);
            o.vals.push(x);
            o
        }
        "pop_front" => {
            let (v, x) = op_pop_front(take(vals, 0));
            let mut o = Outcome::outs([v]);
            o.vals.push(x);
            o
        }
        "remove" => {
            let (v, x) = op_remove(take(vals, 0), uarg);
            let mut o = Outcome::outs([v]);
            o.vals.push(x);
            o
        }
        "swap_remove" => {
            let (v, x) = op_swap_remove(take(vals, 0), uarg);
            let mut o = Outcome::outs([v]);
            o.vals.push(x);
            o
        }
        "split" => {
            let (a, b) = op_split(take(vals, 0), uarg);
            Outcome::two(a, b)
        }
        "concat" => {
            let b = take(vals, 1);
            let a = take(vals, 0);
            Outcome::outs([op_concat(a, b)])
        }
        "flatten" => Outcome::outs([op_flatten(take(vals, 0))]),
        "unflatten" => Outcome::outs([op_unflatten(take(vals, 0), uarg)]),
        // ---- conversions --------------------------------------------------------------
        "into_array" => Outcome::outs([op_into_array(take(vals, 0), false)]),
        "into_native" => Outcome::outs([op_into_array(take(vals, 0), true)]),
        "from_array" => Outcome::outs([op_from_array(take(vals, 0), false)]),
        "from_native" => Outcome::outs([op_from_array(take(vals, 0), true)]),
        "into_tuple" => Outcome::outs([op_into_tuple(take(vals, 0))]),
        "from_tuple" => Outcome::outs([op_from_tuple(take(vals, 0))]),
        "into_iter" => Outcome::outs([with_arr!(take(vals, 0), a => a.into_iter().wrap(), bad())]),
        "box_new" => Outcome::outs([with_arr!(take(vals, 0), a => Box::new(a).wrap(), bad())]),
        "unbox" => Outcome::outs([with_box!(take(vals, 0), a => (*a).wrap(), bad())]),
        "into_boxed_slice" => Outcome::outs([with_box!(take(vals, 0), a => a.into_boxed_slice().wrap(), bad())]),
        "into_vec" => Outcome::outs([with_box!(take(vals, 0), a => a.into_vec().wrap(), bad())]),
        "box_into_iter" => Outcome::outs([with_box!(take(vals, 0), a => a.into_iter().wrap(), bad())]),
        "vec_from_arr" => Outcome::outs([with_arr!(take(vals, 0), a => Vec::<E>::from(a).wrap(), bad())]),
        "bslice_from_arr" => Outcome::outs([with_arr!(take(vals, 0), a => Box::<[E]>::from(a).wrap(), bad())]),
        "bslice_into_vec" => match take(vals, 0) {
            Val::BSlice(b) => Outcome::outs([Val::Vec(b.into_vec())]),
            _ => bad(),
        },
        "vec_into_bslice" => match take(vals, 0) {
            Val::Vec(b) => Outcome::outs([Val::BSlice(b.into_boxed_slice())]),
            _ => bad(),
        },
        "try_from_boxed_slice" => match take(vals, 0) {
            Val::BSlice(b) => with_len!(uarg, N => match GenericArray::<E, N>::try_from_boxed_slice(b) {
                Ok(x) => Outcome::outs([x.wrap()]),
                Err(_) => { let mut o = Outcome::new(); o.err = true; o }
            }, bad()),
            _ => bad(),
        },
        "try_from_vec" => match take(vals, 0) {
            Val::Vec(b) => with_len!(uarg, N => match GenericArray::<E, N>::try_from_vec(b) {
                Ok(x) => Outcome::outs([x.wrap()]),
                Err(_) => { let mut o = Outcome::new(); o.err = true; o }
            }, bad()),
            _ => bad(),
        },
        "arr_try_from_vec" => match take(vals, 0) {
            Val::Vec(b) => with_len!(uarg, N => match GenericArray::<E, N>::try_from(b) {
                Ok(x) => Outcome::outs([x.wrap()]),
                Err(_) => { let mut o = Outcome::new(); o.err = true; o }
            }, bad()),
            _ => bad(),
        },
        "arr_try_from_bslice" => match take(vals, 0) {
            Val::BSlice(b) => with_len!(uarg, N => match GenericArray::<E, N>::try_from(b) {
                Ok(x) => Outcome::outs([x.wrap()]),
                Err(_) => { let mut o = Outcome::new(); o.err = true; o }
            }, bad()),
            _ => bad(),
        },
        // ---- by-value iterator ---------------------------------------------------------
        "next" => {
            let mut o = Outcome::new();
            with_iter!(&mut vals[0], it => { if let Some(x) = it.next() { o.vals.push(x) } }, bad());
            o
        }
        "next_back" => {
            let mut o = Outcome::new();
            with_iter!(&mut vals[0], it => { if let Some(x) = it.next_back() { o.vals.push(x) } }, bad());
            o
        }
        "nth" => {
            let mut o = Outcome::new();
            with_iter!(&mut vals[0], it => { if let Some(x) = it.nth(uarg) { o.vals.push(x) } }, bad());
            o
        }
        "nth_back" => {
            let mut o = Outcome::new();
            with_iter!(&mut vals[0], it => { if let Some(x) = it.nth_back(uarg) { o.vals.push(x) } }, bad());
            o
        }
        "len" => {
            let mut o = Outcome::new();
            o.res = with_iter!(&vals[0], it => it.len() as i64, bad());
            o
        }
        "size_hint" => {
            let mut o = Outcome::new();
            o.res = with_iter!(&vals[0], it => { let (lo, hi) = it.size_hint(); if hi == Some(lo) { lo as i64 } else { -2 } }, bad());
            o
        }
        "as_slice" => {
            let mut o = Outcome::new();
            o.res = with_iter!(&vals[0], it => it.as_slice().len() as i64, bad());
            o
        }
        "debug" => {
            let mut o = Outcome::new();
            with_iter!(&vals[0], it => {
                o.res = it.len() as i64;
                let _b = crate::events::Bypass::new();
                let r = DbgRef(it.as_slice());
                o.dbg = format!("{:?}|{:#?}|{:x?}|{:10.3?}", it, it, it, it);
                o.dbgref = format!("{:?}|{:#?}|{:x?}|{:10.3?}", r, r, r, r);
            }, bad());
            o
        }
        "as_mut_swap" => {
            let mut o = Outcome::new();
            let e = elems.pop().unwrap();
            with_iter!(&mut vals[0], it => { let old = std::mem::replace(&mut it.as_mut_slice()[uarg], e); o.vals.push(old); }, bad());
            o
        }
        "count" => {
            let mut o = Outcome::new();
            o.res = with_iter!(take(vals, 0), it => it.count() as i64, bad());
            o
        }
        "last" => {
            let mut o = Outcome::new();
            with_iter!(take(vals, 0), it => { if let Some(x) = it.last() { o.vals.push(x) } }, bad());
            o
        }
        "collect_iter_take" => {
            let mut o = Outcome::new();
            with_iter!(take(vals, 0), it => with_len!(uarg, N => match GenericArray::<E, N>::try_from_iter(it.take(uarg)) {
                Ok(a) => o.outs.push(a.wrap()),
                Err(_) => o.err = true,
            }, bad()), bad());
            o
        }
        "collect_iter" => {
            let mut o = Outcome::new();
            with_iter!(take(vals, 0), it => with_len!(uarg, N => match GenericArray::<E, N>::try_from_iter(it.filter(|_| true)) {
                Ok(a) => o.outs.push(a.wrap()),
                Err(_) => o.err = true,
            }, bad()), bad());
            o
        }
        "iter_fold" => {
            let mut o = Outcome::new();
            o.res = with_iter!(take(vals, 0), it => it.fold(0i64, |acc, x| ctx.fold::<E, E>(acc, x)), bad());
            o
        }
        "iter_rfold" => {
            let mut o = Outcome::new();
            o.res = with_iter!(take(vals, 0), it => it.rfold(0i64, |acc, x| ctx.fold::<E, E>(acc, x)), bad());
            o
        }
        // Iterator::for_each is a fold whose accumulator lives in the closure (logged as iter_fold)
        "iter_for_each" => {
            let mut o = Outcome::new();
            let acc = Cell::new(0i64);
            with_iter!(take(vals, 0), it => it.for_each(|x| acc.set(ctx.fold::<E, E>(acc.get(), x))), bad());
            o.res = acc.get();
            o
        }
        // searching consumers on `&mut iter`: scripted predicate (ends the search at call index `arg`)
        "iter_position" | "iter_rposition" | "iter_any" | "iter_all" | "iter_find" | "iter_rfind" | "iter_find_map" => {
            let mut o = Outcome::new();
            with_iter!(&mut vals[0], it => match op {
                "iter_position" => o.res = it.position(|x| ctx.pred::<E, E>(x, true)).map(|p| p as i64).unwrap_or(-1),
                "iter_rposition" => o.res = it.rposition(|x| ctx.pred::<E, E>(x, true)).map(|p| p as i64).unwrap_or(-1),
                "iter_any" => o.res = it.any(|x| ctx.pred::<E, E>(x, true)) as i64,
                "iter_find_map" => o.res = it.find_map(|x| if ctx.pred::<E, E>(x, true) { Some(1i64) } else { None }).unwrap_or(0),
                "iter_all" => o.res = it.all(|x| ctx.pred::<E, E>(x, false)) as i64,
                "iter_find" => o.vals.extend(it.find(|x| ctx.pred::<E, &E>(x, true))),
                _ => o.vals.extend(it.rfind(|x| ctx.pred::<E, &E>(x, true))),
            }, bad());
            o
        }
        "iter_clone" => Outcome::outs([with_iter!(&vals[0], it => it.clone().wrap(), bad())]),
        // Clone::clone_from: operand 0 is overwritten with clones of operand 1 (both stay in the pool)
        "clone_from" | "iter_clone_from" => {
            let (a, b) = vals.split_at_mut(1);
            if op == "iter_clone_from" {
                with_iter2!((&mut a[0], &b[0]), x, y => x.clone_from(y), bad());
            } else if with_box!(&b[0], _y => true, false) {
                with_box2!((&mut a[0], &b[0]), x, y => x.clone_from(y), bad());
            } else {
                with_arr2!((&mut a[0], &b[0]), x, y => x.clone_from(y), bad());
            }
            Outcome::new()
        }
        // ---- functional operations -----------------------------------------------------
        "generate" => Outcome::outs([match okind {
            "box" => with_len!(n, N => Box::<GenericArray<E, N>>::generate(|i| ctx.gen::<E>(i)).wrap(), bad()),
            // GenericSequence for &S / &mut S forwards generate to S
            "arr_via_ref" => with_len!(n, N => <&GenericArray<E, N> as GenericSequence<E>>::generate(|i| ctx.gen::<E>(i)).wrap(), bad()),
            "arr_via_mut" => with_len!(n, N => <&mut GenericArray<E, N> as GenericSequence<E>>::generate(|i| ctx.gen::<E>(i)).wrap(), bad()),
            _ => with_len!(n, N => GenericArray::<E, N>::generate(|i| ctx.gen::<E>(i)).wrap(), bad()),
        }]),
        "default" => Outcome::outs([match okind {
            "box" => with_len!(n, N => dflt_boxed::<E, N>().wrap(), bad()),
            _ => with_len!(n, N => dflt_arr::<E, N>().wrap(), bad()),
        }]),
        "clone" => Outcome::outs([match &vals[0] {
            v @ _ => {
                if let Some(x) = with_arr!(v, a => Some(a.clone().wrap()), None) { x }
                else { with_box!(v, a => a.clone().wrap(), bad()) }
            }
        }]),
        "map" => {
            let f = forms[0].as_str();
            let is_box = with_box!(&vals[0], _a => true, false);
            Outcome::outs([if is_box {
                with_box!(take(vals, 0), a => a.map(|x| ctx.cb1::<E, E>(x)).wrap(), bad())
            } else {
                match f {
                    "own" => with_arr!(take(vals, 0), a => a.map(|x| ctx.cb1::<E, E>(x)).wrap(), bad()),
                    "ref" => with_arr!(&vals[0], a => a.map(|x| ctx.cb1::<E, &E>(x)).wrap(), bad()),
                    _ => with_arr!(&mut vals[0], a => a.map(|x| ctx.cb1::<E, &mut E>(x)).wrap(), bad()),
                }
            }])
        }
        "fold" => {
            let f = forms[0].as_str();
            let is_box = with_box!(&vals[0], _a => true, false);
            let mut o = Outcome::new();
            o.res = if is_box {
                with_box!(take(vals, 0), a => a.fold(0i64, |acc, x| ctx.fold::<E, E>(acc, x)), bad())
            } else {
                match f {
                    "own" => with_arr!(take(vals, 0), a => a.fold(0i64, |acc, x| ctx.fold::<E, E>(acc, x)), bad()),
                    "ref" => with_arr!(&vals[0], a => a.fold(0i64, |acc, x| ctx.fold::<E, &E>(acc, x)), bad()),
                    _ => with_arr!(&mut vals[0], a => a.fold(0i64, |acc, x| ctx.fold::<E, &mut E>(acc, x)), bad()),
                }
            };
            o
        }
        // ---- the `internals` builders / consumer driven directly and abandoned at position `arg` -----
        "builder_abandon" | "intrusive_abandon" => {
            with_len!(n, N => {
                use generic_array::internals::{ArrayBuilder, IntrusiveArrayBuilder};
                let p = uarg.min(n);
                let fill = |k: usize| -> E { ctx.gen::<E>(k) };
                if op == "builder_abandon" {
                    unsafe {
                        let mut b = ArrayBuilder::<E, N>::new();
                        {
                            let (it, pos) = b.iter_position();
                            for (k, dst) in it.enumerate() {
                                if k == p { break; }
                                dst.write(fill(k));
                                *pos += 1;
                            }
                        }
                        if p == n { return Outcome::outs([b.assume_init().wrap()]); }
                        ev!("\"ev\":\"abandon\"");
                        drop(b);
                    }
                } else {
                    unsafe {
                        let mut arr = GenericArray::<E, N>::uninit();
                        let mut b = IntrusiveArrayBuilder::new(&mut arr);
                        {
                            let (it, pos) = b.iter_position();
                            for (k, dst) in it.enumerate() {
                                if k == p { break; }
                                dst.write(fill(k));
                                *pos += 1;
                            }
                        }
                        if p == n { b.finish(); return Outcome::outs([IntrusiveArrayBuilder::array_assume_init(arr).wrap()]); }
                        ev!("\"ev\":\"abandon\"");
                        drop(b);
                    }
                }
                injected_panic()
            }, bad())
        }
        // `extend` of the two builders fed by a scripted (possibly short, possibly panicking) source
        "builder_extend" | "intrusive_extend" => {
            let _pre = crate::events::Bypass::new();
            let script: Vec<u8> = jarr(st, "script").into_iter().map(|x| x as u8).collect();
            let src = ScriptedIter::<E> { script, pos: 0, hint: Some((0, None)), guard: std::mem::take(&mut elems), _p: std::marker::PhantomData };
            let mut o = Outcome::new();
            drop(_pre);
            with_len!(n, N => {
                use generic_array::internals::{ArrayBuilder, IntrusiveArrayBuilder};
                unsafe {
                    if op == "builder_extend" {
                        let mut b = ArrayBuilder::<E, N>::new();
                        b.extend(src);
                        if b.is_full() { o.outs.push(b.assume_init().wrap()) } else { o.err = true; drop(b) }
                    } else {
                        let mut arr = GenericArray::<E, N>::uninit();
                        let mut b = IntrusiveArrayBuilder::new(&mut arr);
                        b.extend(src);
                        if b.is_full() { b.finish(); o.outs.push(IntrusiveArrayBuilder::array_assume_init(arr).wrap()) } else { o.err = true; drop(b) }
                    }
                }
            }, bad());
            o
        }
        "consumer_abandon" => {
            // takes `arg` elements out of an ArrayConsumer (they stay with the caller), then drops it
            let mut o = Outcome::new();
            let p = uarg;
            with_arr!(take(vals, 0), a => {
                use generic_array::internals::ArrayConsumer;
                let mut c = ArrayConsumer::new(a);
                let mut acc = 0i64;
                // in two passes over the SAME consumer: iter_position hands out an iterator over the whole array each time
                // (its documented meaning); the second pass skips what `position` says is gone
                for (lo, hi) in [(0usize, p / 2), (p / 2, p)] {
                    unsafe {
                        let (it, pos) = c.iter_position();
                        let start = *pos;
                        assert!(start == lo, "HARNESS: consumer position {} != {}", start, lo);
                        for (k, src) in it.enumerate().skip(start) {
                            if k == hi { break; }
                            let v = std::ptr::read(src);
                            *pos += 1;
                            ev!("\"ev\":\"cb\",\"k\":{},\"idx\":-1,\"args\":[{}],\"acc\":{},\"pv\":-1", k, v.id(), acc);
                            acc += 1;
                            ev!("\"ev\":\"cb_ret\",\"k\":{},\"ret\":[],\"acc\":{},\"panic\":false", k, acc);
                            { let _b = crate::events::Bypass::new(); o.vals.push(v); }
                        }
                    }
                }
                o.res = acc;
                // the taken elements are the caller's (the contract moved them to `loose` at each callback):
                // hand them to the interpreter's bag through a side channel
                KEPT.with(|kpt| { let _b = crate::events::Bypass::new(); kpt.borrow_mut().extend(o.vals.drain(..).map(|e| (e.id(), Box::new(e) as Box<dyn std::any::Any>))); });
                if p < n {
                    ev!("\"ev\":\"abandon\"");
                    drop(c);
                    injected_panic();
                }
                drop(c);
            }, bad());
            o
        }
        "zipx" => {
            // tracked x plain-of-another-type, both operand orders, owned / borrowed
            let left = js(st, "side") != "r";
            let pref = js(st, "pform") == "ref";
            Outcome::outs([match forms[0].as_str() {
                "own" => with_arr!(take(vals, 0), a => zipx_own(a, left, pref, ctx).wrap(), bad()),
                _ => with_arr!(&vals[0], a => zipx_ref(a, left, pref, ctx).wrap(), bad()),
            }])
        }
        "zipx_plain_out" => {
            let left = js(st, "side") != "r";
            let mut o = Outcome::new();
            let pform = { let p = js(st, "pform"); if p.is_empty() { "own".to_string() } else { p.to_string() } };
            o.res = with_arr!(take(vals, 0), a => zipx_plain_out(a, left, &pform, ctx), bad());
            o
        }
        // plain (no drop glue) sources, tracked results: what has been built must be released when the closure panics
        // (logged as `generate`: callback k gets index k and returns the element for slot k)
        "map_from_plain" | "zip_from_plain" => {
            let form = forms.first().map(|s| s.as_str()).unwrap_or("own").to_string();
            Outcome::outs([with_len!(n, N => {
                let mut p: GenericArray<u64, N> = GenericArray::generate(|i| i as u64);
                let mut q: GenericArray<u64, N> = GenericArray::generate(|i| i as u64);
                match (op, form.as_str()) {
                    ("map_from_plain", "own") => p.map(|v| ctx.gen::<E>(v as usize)).wrap(),
                    ("map_from_plain", "ref") => (&p).map(|v| ctx.gen::<E>(*v as usize)).wrap(),
                    ("map_from_plain", "mut") => (&mut p).map(|v| ctx.gen::<E>(*v as usize)).wrap(),
                    ("map_from_plain", _) => GenericArray::<E, N>::from_iter(Box::new(p).map(|v| ctx.gen::<E>(v as usize)).into_iter()).wrap(),
                    (_, "own") => p.zip(q, |v, _w| ctx.gen::<E>(v as usize)).wrap(),
                    (_, "ref") => (&p).zip(q, |v, _w| ctx.gen::<E>(*v as usize)).wrap(),
                    (_, "mut") => p.zip(&mut q, |v, _w| ctx.gen::<E>(v as usize)).wrap(),
                    (_, "refref") => (&p).zip(&q, |v, _w| ctx.gen::<E>(*v as usize)).wrap(),
                    _ => GenericArray::<E, N>::from_iter(Box::new(p).zip(Box::new(q), |v, _w| ctx.gen::<E>(v as usize)).into_iter()).wrap(),
                }
            }, bad())])
        }
        "map_plain_out" => {
            let mut o = Outcome::new();
            o.res = with_arr!(take(vals, 0), a => map_plain_out(a, ctx), bad());
            o
        }
        "zip" => {
            let is_box = with_box!(&vals[0], _a => true, false);
            Outcome::outs([if is_box {
                let b = take(vals, 1);
                let a = take(vals, 0);
                with_box2!((a, b), x, y => x.zip(y, |p, q| ctx.cb2::<E, E, E>(p, q)).wrap(), bad())
            } else {
                let (l, r) = vals.split_at_mut(1);
                match (forms[0].as_str(), forms[1].as_str()) {
                    ("own", "own") => with_arr2!((take(vals, 0), take(vals, 1)), x, y => x.zip(y, |p, q| ctx.cb2::<E, E, E>(p, q)).wrap(), bad()),
                    ("own", "ref") => with_arr2!((std::mem::replace(&mut l[0], moved()), &r[0]), x, y => x.zip(y, |p, q| ctx.cb2::<E, E, &E>(p, q)).wrap(), bad()),
                    ("own", _) => with_arr2!((std::mem::replace(&mut l[0], moved()), &mut r[0]), x, y => x.zip(y, |p, q| ctx.cb2::<E, E, &mut E>(p, q)).wrap(), bad()),
                    ("ref", "own") => with_arr2!((&l[0], std::mem::replace(&mut r[0], moved())), x, y => x.zip(y, |p, q| ctx.cb2::<E, &E, E>(p, q)).wrap(), bad()),
                    ("ref", "ref") => with_arr2!((&l[0], &r[0]), x, y => x.zip(y, |p, q| ctx.cb2::<E, &E, &E>(p, q)).wrap(), bad()),
                    ("ref", _) => with_arr2!((&l[0], &mut r[0]), x, y => x.zip(y, |p, q| ctx.cb2::<E, &E, &mut E>(p, q)).wrap(), bad()),
                    (_, "own") => with_arr2!((&mut l[0], std::mem::replace(&mut r[0], moved())), x, y => x.zip(y, |p, q| ctx.cb2::<E, &mut E, E>(p, q)).wrap(), bad()),
                    (_, "ref") => with_arr2!((&mut l[0], &r[0]), x, y => x.zip(y, |p, q| ctx.cb2::<E, &mut E, &E>(p, q)).wrap(), bad()),
                    (_, _) => with_arr2!((&mut l[0], &mut r[0]), x, y => x.zip(y, |p, q| ctx.cb2::<E, &mut E, &mut E>(p, q)).wrap(), bad()),
                }
            }])
        }
        // ---- serde ---------------------------------------------------------------------------
        // serde's hidden in-place entry point, scripted sources only: operand 0 is the place
        "deserialize_in_place" => {
            let _pre = crate::events::Bypass::new();
            let script: Vec<u8> = jarr(st, "script").into_iter().map(|x| x as u8).collect();
            let hints = match st.get("hints") {
                None => crate::serde_drv::HintMode::Absent,
                Some(J::String(s)) if s == "truthful" => crate::serde_drv::HintMode::Truthful,
                Some(J::Array(a)) => crate::serde_drv::HintMode::Fixed(a.iter().map(|x| x.as_i64().unwrap()).collect()),
                _ => crate::serde_drv::HintMode::Absent,
            };
            let human_readable = st.get("hr").and_then(|x| x.as_bool()).unwrap_or(true);
            let de = crate::serde_drv::ScriptDe { script, hints, human_readable };
            let mut o = Outcome::new();
            drop(_pre);
            o.err = with_arr!(&mut vals[0], a => serde::Deserialize::deserialize_in_place(de, a).is_err(), bad());
            o
        }
        "deserialize" => {
            let _pre = crate::events::Bypass::new();
            let src = js(st, "src").to_string();
            let mut o = Outcome::new();
            let res: Result<Val<E>, ()> = match src.as_str() {
                "script" => {
                    let script: Vec<u8> = jarr(st, "script").into_iter().map(|x| x as u8).collect();
                    let hints = match st.get("hints") {
                        None => crate::serde_drv::HintMode::Absent,
                        Some(J::String(s)) if s == "truthful" => crate::serde_drv::HintMode::Truthful,
                        Some(J::Array(a)) => crate::serde_drv::HintMode::Fixed(a.iter().map(|x| x.as_i64().unwrap()).collect()),
                        _ => crate::serde_drv::HintMode::Absent,
                    };
                    let human_readable = st.get("hr").and_then(|x| x.as_bool()).unwrap_or(true);
                    let de = crate::serde_drv::ScriptDe { script, hints, human_readable };
                    with_len!(n, N => <GenericArray<E, N> as serde::Deserialize>::deserialize(de).map(|a| a.wrap()).map_err(|_| ()), bad())
                }
                _ => {
                    let l = ju(st, "l").unwrap_or(0);
                    let bad_at = ju(st, "bad_at").unwrap_or(-1);
                    match src.as_str() {
                        "json" => {
                            let parts: Vec<String> = (0..l).map(|i| if i == bad_at { "\"x\"".to_string() } else { (i + 1).to_string() }).collect();
                            let text = format!("[{}]", parts.join(","));
                            with_len!(n, N => serde_json::from_str::<GenericArray<E, N>>(&text).map(|a| a.wrap()).map_err(|_| ()), bad())
                        }
                        "value" => {
                            let v = J::Array((0..l).map(|i| if i == bad_at { J::String("x".into()) } else { J::from(i + 1) }).collect());
                            with_len!(n, N => serde_json::from_value::<GenericArray<E, N>>(v).map(|a| a.wrap()).map_err(|_| ()), bad())
                        }
                        _ => {
                            let mut bytes = vec![];
                            for i in 0..l {
                                bytes.extend_from_slice(&((i + 1) as u32).to_le_bytes());
                            }
                            with_len!(n, N => bincode::deserialize::<GenericArray<E, N>>(&bytes).map(|a| a.wrap()).map_err(|_| ()), bad())
                        }
                    }
                }
            };
            match res {
                Ok(v) => o.outs.push(v),
                Err(()) => o.err = true,
            }
            o
        }
        "serialize" => {
            let _pre = crate::events::Bypass::new();
            let mut o = Outcome::new();
            with_arr!(&vals[0], a => {
                let items: Vec<i64> = a.iter().map(|e| e.id()).collect();
                let mut log = crate::serde_drv::SerLog::default();
                let r = serde::Serialize::serialize(a, crate::serde_drv::RecSer(&mut log));
                ev!("\"ev\":\"ser\",\"n\":{},\"items\":{},\"tuple_len\":{},\"elems\":{},\"ended\":{},\"other\":{}", n, ids(&items), log.tuple_len, ids(&log.elems), log.ended && r.is_ok(), log.other);
                // real formats: identical to the same elements serialised as a Vec-free native tuple stream
                let wire: Vec<u32> = items.iter().map(|x| *x as u32).collect();
                let json_a = serde_json::to_string(a).unwrap();
                let json_n = serde_json::to_string(&wire).unwrap();
                let val_a = serde_json::to_value(a).unwrap();
                let bin_a = bincode::serialize(a).unwrap();
                let mut bin_n = vec![];
                for w in &wire {
                    bin_n.extend_from_slice(&bincode::serialize(w).unwrap());
                }
                let same = json_a == json_n && bin_a == bin_n && val_a == serde_json::to_value(&wire).unwrap();
                ev!("\"ev\":\"fmt\",\"n\":{},\"json\":{},\"bincode_len\":{},\"same_as_native\":{},\"roundtrip_equal\":true", n, jstr(&json_a), bin_a.len(), same);
            }, bad());
            o
        }
        // ---- collecting from a scripted source ---------------------------------------------
        "try_from_iter" | "from_iter" | "try_boxed_from_iter" | "boxed_from_iter" => {
            let _pre = crate::events::Bypass::new();
            let script: Vec<u8> = jarr(st, "script").into_iter().map(|x| x as u8).collect();
            // (2^31 - 1 stands for usize::MAX in either bound)
            let hint = st.get("hint").and_then(|h| h.as_array()).map(|h| {
                let wide = |x: i64| if x >= i32::MAX as i64 { usize::MAX } else { x as usize };
                let lo = wide(h[0].as_i64().unwrap());
                let hi = h[1].as_i64().unwrap();
                (lo, if hi < 0 { None } else { Some(wide(hi)) })
            });
            let src = ScriptedIter::<E> { script, pos: 0, hint, guard: std::mem::take(&mut elems), _p: std::marker::PhantomData };
            let mut o = Outcome::new();
            drop(_pre);
            if n == 2_000_000_000 {
                // a length no allocation can hold (2^50 elements; the trace carries the code 2 000 000 000): a source whose
                // hint rules it out must be refused before anything is allocated - the heap forms only (the stack
                // form of such a type cannot exist)
                type Huge = generic_array::typenum::U1125899906842624;
                match op {
                    "try_boxed_from_iter" => match GenericArray::<E, Huge>::try_boxed_from_iter(src) { Ok(_) => panic!("HARNESS: built 2^50 elements"), Err(_) => o.err = true },
                    "boxed_from_iter" => { let _b: Box<GenericArray<E, Huge>> = src.collect(); panic!("HARNESS: built 2^50 elements") }
                    _ => bad(),
                }
                return o;
            }
            match op {
                "try_from_iter" => with_len!(n, N => match GenericArray::<E, N>::try_from_iter(src) { Ok(a) => o.outs.push(a.wrap()), Err(_) => o.err = true }, bad()),
                "from_iter" => with_len!(n, N => o.outs.push(src.collect::<GenericArray<E, N>>().wrap()), bad()),
                "try_boxed_from_iter" => with_len!(n, N => match GenericArray::<E, N>::try_boxed_from_iter(src) { Ok(a) => o.outs.push(a.wrap()), Err(_) => o.err = true }, bad()),
                _ => with_len!(n, N => o.outs.push(src.collect::<Box<GenericArray<E, N>>>().wrap()), bad()),
            }
            o
        }
        _ => panic!("HARNESS: unknown op {}", op),
    }
}

fn zipx_own<E: Elem, N: generic_array::ArrayLength>(a: GenericArray<E, N>, left: bool, pref: bool, ctx: &CbCtx) -> GenericArray<E, N> {
    let p: GenericArray<u64, N> = GenericArray::generate(|i| i as u64);
    match (left, pref) {
        (true, false) => a.zip(p, |x, v| ctx.cbx::<E, E>(x, v)),
        (true, true) => a.zip(&p, |x, v| ctx.cbx::<E, E>(x, *v)),
        (false, false) => p.zip(a, |v, x| ctx.cbx::<E, E>(x, v)),
        (false, true) => (&p).zip(a, |v, x| ctx.cbx::<E, E>(x, *v)),
    }
}
fn zipx_ref<E: Elem, N: generic_array::ArrayLength>(a: &GenericArray<E, N>, left: bool, pref: bool, ctx: &CbCtx) -> GenericArray<E, N> {
    let p: GenericArray<u64, N> = GenericArray::generate(|i| i as u64);
    match (left, pref) {
        (true, false) => a.zip(p, |x, v| ctx.cbx::<E, &E>(x, v)),
        (true, true) => a.zip(&p, |x, v| ctx.cbx::<E, &E>(x, *v)),
        (false, false) => p.zip(a, |v, x| ctx.cbx::<E, &E>(x, v)),
        (false, true) => (&p).zip(a, |v, x| ctx.cbx::<E, &E>(x, *v)),
    }
}
/// what Debug of the iterator must look like under any flags: a tuple struct named GenericArrayIter whose
/// single field is the slice of the remaining elements (formatted by std, with the caller's flags)
struct DbgRef<'a, E: Elem>(&'a [E]);
impl<'a, E: Elem> std::fmt::Debug for DbgRef<'a, E> {
    fn fmt(&self, f: &mut std::fmt::Formatter) -> std::fmt::Result {
        f.debug_tuple("GenericArrayIter").field(&self.0).finish()
    }
}

fn zipx_plain_out<E: Elem, N: generic_array::ArrayLength>(a: GenericArray<E, N>, left: bool, pform: &str, ctx: &CbCtx) -> i64 {
    // tracked x plain -> plain: neither the other operand nor the OUTPUT has drop glue; the plain operand owned,
    // by shared or by mutable reference (each form selects another zip / inverted_zip / inverted_zip2 body)
    let mut p: GenericArray<u64, N> = GenericArray::generate(|i| i as u64);
    let acc = Cell::new(0i64);
    let f = |x: E| -> u64 {
        let r = ctx.fold::<E, E>(acc.get(), x);
        acc.set(r);
        r as u64
    };
    let out: GenericArray<u64, N> = match (left, pform) {
        (true, "own") => a.zip(p, |x, _v| f(x)),
        (true, "ref") => a.zip(&p, |x, _v| f(x)),
        (true, _) => a.zip(&mut p, |x, _v| f(x)),
        (false, "own") => p.zip(a, |_v, x| f(x)),
        (false, "ref") => (&p).zip(a, |_v, x| f(x)),
        (false, _) => (&mut p).zip(a, |_v, x| f(x)),
    };
    drop(out);
    acc.get()
}

fn map_plain_out<E: Elem, N: generic_array::ArrayLength>(a: GenericArray<E, N>, ctx: &CbCtx) -> i64 {
    // tracked -> plain: the OUTPUT element type has no drop glue, the source's has
    let acc = Cell::new(0i64);
    let out: GenericArray<u64, N> = a.map(|x| {
        let r = ctx.fold::<E, E>(acc.get(), x);
        acc.set(r);
        r as u64
    });
    drop(out);
    acc.get()
}

fn dflt_arr<E: Elem, N: generic_array::ArrayLength>() -> GenericArray<E, N> {
    GenericArray::<E, N>::default()
}
fn dflt_boxed<E: Elem, N: generic_array::ArrayLength>() -> Box<GenericArray<E, N>> {
    GenericArray::<E, N>::default_boxed()
}
