//! Event log: one NDJSON line per observable step.  Nothing here is post-processed.
use std::fmt::Write as _;
use std::io::Write as _;
use std::sync::atomic::{AtomicBool, AtomicUsize, Ordering};
use std::sync::Mutex;

/// Set while the harness itself allocates (log buffers, bookkeeping): the recording
/// allocator ignores such allocations.
pub static BYPASS: AtomicUsize = AtomicUsize::new(0);
/// Allocator events are only recorded while this is on.
pub static RECORD_ALLOC: AtomicBool = AtomicBool::new(false);

pub struct Bypass;
impl Bypass {
    pub fn new() -> Bypass {
        BYPASS.fetch_add(1, Ordering::SeqCst);
        Bypass
    }
}
impl Drop for Bypass {
    fn drop(&mut self) {
        BYPASS.fetch_sub(1, Ordering::SeqCst);
    }
}
pub fn bypassed() -> bool {
    BYPASS.load(Ordering::SeqCst) > 0
}

pub struct Log {
    pub buf: String,
    pub out: Option<std::fs::File>,
    pub lines: usize,
}
pub static LOG: Mutex<Log> = Mutex::new(Log { buf: String::new(), out: None, lines: 0 });

pub fn open(path: &str) {
    let _b = Bypass::new();
    let mut l = LOG.lock().unwrap();
    l.buf.reserve(1 << 20);
    l.out = Some(std::fs::File::create(path).expect("HARNESS: cannot create trace file"));
}

pub fn flush() {
    let _b = Bypass::new();
    let mut l = LOG.lock().unwrap();
    let Log { buf, out, .. } = &mut *l;
    if let Some(f) = out {
        f.write_all(buf.as_bytes()).expect("HARNESS: write");
        f.flush().ok();
    }
    buf.clear();
}

/// flush unless the log is locked by a thread that is stuck (used by the watchdog)
pub fn try_flush() {
    let _b = Bypass::new();
    if let Ok(mut l) = LOG.try_lock() {
        let Log { buf, out, .. } = &mut *l;
        if let Some(f) = out {
            let _ = f.write_all(buf.as_bytes());
            let _ = f.flush();
        }
        buf.clear();
    }
}

/// Append one event line (`body` is the JSON object without braces).
pub fn emit(body: &str) {
    crate::watchdog::tick();
    let _b = Bypass::new();
    let mut l = match LOG.lock() {
        Ok(l) => l,
        Err(p) => p.into_inner(),
    };
    l.buf.push('{');
    l.buf.push_str(body);
    l.buf.push_str("}\n");
    l.lines += 1;
    if l.buf.len() > (1 << 19) || flush_each() {
        let Log { buf, out, .. } = &mut *l;
        if let Some(f) = out {
            f.write_all(buf.as_bytes()).expect("HARNESS: write");
        }
        buf.clear();
    }
}

fn flush_each() -> bool {
    use std::sync::OnceLock;
    static F: OnceLock<bool> = OnceLock::new();
    *F.get_or_init(|| std::env::var_os("GAH_FLUSH").is_some())
}

pub fn ids(v: &[i64]) -> String {
    let mut s = String::with_capacity(v.len() * 4 + 2);
    s.push('[');
    for (i, x) in v.iter().enumerate() {
        if i > 0 {
            s.push(',');
        }
        let _ = write!(s, "{}", x);
    }
    s.push(']');
    s
}

pub fn jstr(x: &str) -> String {
    serde_json::to_string(x).unwrap()
}

#[macro_export]
macro_rules! ev {
    ($($arg:tt)*) => {{
        let _b = $crate::events::Bypass::new();
        let s = format!($($arg)*);
        $crate::events::emit(&s);
    }};
}
