//! Borrowed views and reference reinterpretation (C02, C09 by-reference split, C10, C11 by-reference
//! regrouping): for every API the harness logs where the returned reference(s) point relative to the
//! source buffer (byte offset, element count), writes through mutable views and reads back through
//! the source.  The memory model that judges these records is spec/Views.tla.
use crate::events::ids;
use crate::{ev, with_const, with_flat, with_len, with_split, with_unflat};
use generic_array::sequence::{Flatten, GenericSequence, Split, Unflatten};
use generic_array::typenum::{Prod, Quot};
use generic_array::{ArrayLength, GenericArray};
use serde_json::Value as J;
use std::borrow::{Borrow, BorrowMut};
use std::ops::{Div, Mul, Sub};
use std::panic::{catch_unwind, AssertUnwindSafe};

pub trait VE: 'static {
    const NAME: &'static str;
    fn from_num(i: i64) -> Self;
    fn num(&self) -> i64;
}
impl VE for () {
    const NAME: &'static str = "unit";
    fn from_num(_: i64) {}
    fn num(&self) -> i64 {
        0
    }
}
impl VE for u8 {
    const NAME: &'static str = "u8";
    fn from_num(i: i64) -> u8 {
        (i % 251) as u8
    }
    fn num(&self) -> i64 {
        *self as i64
    }
}
impl VE for u32 {
    const NAME: &'static str = "u32";
    fn from_num(i: i64) -> u32 {
        i as u32
    }
    fn num(&self) -> i64 {
        *self as i64
    }
}
impl VE for u64 {
    const NAME: &'static str = "u64";
    fn from_num(i: i64) -> u64 {
        i as u64
    }
    fn num(&self) -> i64 {
        *self as i64
    }
}
impl VE for (u8, u16) {
    const NAME: &'static str = "u8u16";
    fn from_num(i: i64) -> (u8, u16) {
        ((i % 200) as u8, (i % 60000) as u16)
    }
    fn num(&self) -> i64 {
        self.1 as i64
    }
}
impl VE for [u8; 24] {
    const NAME: &'static str = "b24";
    fn from_num(i: i64) -> [u8; 24] {
        let mut a = [0u8; 24];
        a[0] = (i & 0xff) as u8;
        a[1] = ((i >> 8) & 0x7f) as u8;
        a[23] = a[0] ^ 0x5a;
        a
    }
    fn num(&self) -> i64 {
        if self[23] == self[0] ^ 0x5a { self[0] as i64 | ((self[1] as i64) << 8) } else { -1 }
    }
}
/// not Copy, has drop glue (a String payload)
pub struct VOwned(String);
impl VE for VOwned {
    const NAME: &'static str = "owned";
    fn from_num(i: i64) -> VOwned {
        VOwned(i.to_string())
    }
    fn num(&self) -> i64 {
        self.0.parse().unwrap_or(-1)
    }
}

fn nums<T: VE>(s: &[T]) -> Vec<i64> {
    s.iter().map(|x| x.num()).collect()
}

struct Src {
    base: usize,
    esize: usize,
}
impl Src {
    fn of<T>(p: *const T) -> Src {
        Src { base: p as usize, esize: std::mem::size_of::<T>() }
    }
    fn part<T>(&self, p: *const T, len: usize) -> (i64, i64) {
        // offsets far outside the source (an unrelated or dangling address) are reported as "elsewhere"
        let off = (p as usize as i64) - (self.base as i64);
        (off.clamp(-(1 << 30), 1 << 30), len as i64)
    }
}

fn log_src(vals: &[i64], esize: usize) {
    ev!("\"ev\":\"vsrc\",\"vals\":{},\"esize\":{}", ids(vals), esize);
}
fn log_view(api: &str, n: usize, l: usize, k: usize, m: usize, outcome: &str, parts: &[(i64, i64)], cnt: i64, esize: usize) {
    let mut p = String::from("[");
    for (i, (o, len)) in parts.iter().enumerate() {
        if i > 0 {
            p.push(',');
        }
        p.push_str(&format!("{{\"off\":{},\"len\":{}}}", o, len));
    }
    p.push(']');
    ev!("\"ev\":\"view\",\"api\":\"{}\",\"n\":{},\"l\":{},\"k\":{},\"m\":{},\"outcome\":\"{}\",\"parts\":{},\"cnt\":{},\"esize\":{}", api, n, l, k, m, outcome, p, cnt, esize);
}
fn log_read(part: usize, vals: &[i64]) {
    ev!("\"ev\":\"vread\",\"part\":{},\"vals\":{}", part, ids(vals));
}
/// writes a recognisable value through a mutable view element and logs what now reads back there
fn poke<T: VE>(part: usize, s: &mut [T], idx: usize, tag: i64) {
    s[idx] = T::from_num(tag);
    ev!("\"ev\":\"vwrite\",\"part\":{},\"idx\":{},\"val\":{}", part, idx, s[idx].num());
}
fn probes(len: usize) -> Vec<usize> {
    let mut v = vec![];
    if len > 0 {
        v.push(0);
        v.push(len - 1);
        v.push(len / 2);
    }
    v.sort();
    v.dedup();
    v
}

fn fill<T: VE, N: ArrayLength>() -> GenericArray<T, N> {
    GenericArray::generate(|i| T::from_num(i as i64 + 1))
}
fn fillv<T: VE>(l: usize) -> Vec<T> {
    (0..l).map(|i| T::from_num(i as i64 + 1)).collect()
}

/// views of a whole GenericArray<T, N>
fn whole<T: VE, N: ArrayLength>(api: &str, n: usize) {
    let mut a: GenericArray<T, N> = fill::<T, N>();
    let src = Src::of(&a as *const _ as *const T);
    log_src(&nums(a.as_slice()), src.esize);
    macro_rules! shared {
        ($e:expr) => {{
            let s: &[T] = $e;
            log_view(api, n, n, 0, 0, "ok", &[src.part(s.as_ptr(), s.len())], -1, src.esize);
            log_read(1, &nums(s));
        }};
    }
    macro_rules! mutable {
        ($e:expr) => {{
            {
                let s: &mut [T] = $e;
                log_view(api, n, n, 0, 0, "ok", &[src.part(s.as_ptr(), s.len())], -1, src.esize);
                for i in probes(s.len()) {
                    poke(1, s, i, 1000 + i as i64);
                }
            }
            log_read(0, &nums(a.as_slice()));
            let d: &[T] = &a;
            log_read(0, &nums(d));
        }};
    }
    match api {
        "as_slice" => shared!(a.as_slice()),
        "deref" => shared!(&*a),
        "asref_slice" => shared!(AsRef::<[T]>::as_ref(&a)),
        "borrow" => shared!(Borrow::<[T]>::borrow(&a)),
        "as_mut_slice" => mutable!(a.as_mut_slice()),
        "deref_mut" => mutable!(&mut *a),
        "asmut_slice" => mutable!(AsMut::<[T]>::as_mut(&mut a)),
        "borrow_mut" => mutable!(BorrowMut::<[T]>::borrow_mut(&mut a)),
        "index" | "index_mut" | "get" => {
            // l carries the index
            panic!("HARNESS: index apis are dispatched in index_views")
        }
        "iter" | "ref_into_iter" => {
            let parts: Vec<(i64, i64)> = if api == "iter" { a.iter().map(|e| src.part(e as *const T, 1)).collect() } else { (&a).into_iter().map(|e| src.part(e as *const T, 1)).collect() };
            log_view(api, n, n, 0, 0, "ok", &parts, -1, src.esize);
        }
        "iter_mut" | "mut_into_iter" => {
            let mut parts = vec![];
            if api == "iter_mut" {
                for e in a.iter_mut() {
                    parts.push(src.part(e as *const T, 1));
                }
            } else {
                for e in &mut a {
                    parts.push(src.part(e as *const T, 1));
                }
            }
            log_view(api, n, n, 0, 0, "ok", &parts, -1, src.esize);
            for (i, e) in (&mut a).into_iter().enumerate() {
                if i % 3 == 0 {
                    poke(i + 1, std::slice::from_mut(e), 0, 2000 + i as i64);
                }
            }
            log_read(0, &nums(a.as_slice()));
        }
        _ => panic!("HARNESS: views whole api {}", api),
    }
}

/// a[i], a[i] = x, a.get(i) through Deref / DerefMut
fn index_views<T: VE, N: ArrayLength>(api: &str, n: usize, i: usize) {
    let mut a: GenericArray<T, N> = fill::<T, N>();
    let src = Src::of(&a as *const _ as *const T);
    log_src(&nums(a.as_slice()), src.esize);
    match api {
        "index" => match catch_unwind(AssertUnwindSafe(|| &a[i] as *const T)) {
            Ok(p) => {
                log_view(api, n, i, 0, 0, "ok", &[src.part(p, 1)], -1, src.esize);
                log_read(1, &[unsafe { &*p }.num()]);
            }
            Err(_) => log_view(api, n, i, 0, 0, "panic", &[], -1, src.esize),
        },
        "get" => match a.get(i) {
            Some(r) => {
                log_view(api, n, i, 0, 0, "ok", &[src.part(r as *const T, 1)], -1, src.esize);
                log_read(1, &[r.num()]);
            }
            None => log_view(api, n, i, 0, 0, "err", &[], -1, src.esize),
        },
        _ => {
            let p: *mut GenericArray<T, N> = &mut a;
            match catch_unwind(AssertUnwindSafe(|| unsafe { &mut (&mut *p)[i] as *mut T })) {
                Ok(q) => {
                    log_view(api, n, i, 0, 0, "ok", &[src.part(q as *const T, 1)], -1, src.esize);
                    poke(1, unsafe { std::slice::from_raw_parts_mut(q, 1) }, 0, 12000 + i as i64);
                    log_read(0, &nums(a.as_slice()));
                }
                Err(_) => log_view(api, n, i, 0, 0, "panic", &[], -1, src.esize),
            }
        }
    }
}

/// AsRef/AsMut<[T; N]> and From<&[T; N]> / From<&mut [T; N]>
fn native_views<T: VE, N: ArrayLength, const U: usize>(api: &str)
where
    generic_array::typenum::Const<U>: generic_array::IntoArrayLength<ArrayLength = N>,
{
    match api {
        "asref_array" => {
            let a: GenericArray<T, N> = fill::<T, N>();
            let src = Src::of(&a as *const _ as *const T);
            log_src(&nums(a.as_slice()), src.esize);
            let r: &[T; U] = a.as_ref();
            log_view(api, U, U, 0, 0, "ok", &[src.part(r.as_ptr(), r.len())], -1, src.esize);
            log_read(1, &nums(&r[..]));
        }
        "asmut_array" => {
            let mut a: GenericArray<T, N> = fill::<T, N>();
            let src = Src::of(&a as *const _ as *const T);
            log_src(&nums(a.as_slice()), src.esize);
            {
                let r: &mut [T; U] = a.as_mut();
                log_view(api, U, U, 0, 0, "ok", &[src.part(r.as_ptr(), r.len())], -1, src.esize);
                for i in probes(U) {
                    poke(1, &mut r[..], i, 3000 + i as i64);
                }
            }
            log_read(0, &nums(a.as_slice()));
        }
        "from_array_ref" => {
            let arr: [T; U] = core::array::from_fn(|i| T::from_num(i as i64 + 1));
            let src = Src::of(arr.as_ptr());
            log_src(&nums(&arr[..]), src.esize);
            let g: &GenericArray<T, N> = (&arr).into();
            log_view(api, U, U, 0, 0, "ok", &[src.part(g.as_ptr(), g.len())], -1, src.esize);
            log_read(1, &nums(g.as_slice()));
        }
        "from_array_mut" => {
            let mut arr: [T; U] = core::array::from_fn(|i| T::from_num(i as i64 + 1));
            let src = Src::of(arr.as_ptr());
            log_src(&nums(&arr[..]), src.esize);
            {
                let g: &mut GenericArray<T, N> = (&mut arr).into();
                log_view(api, U, U, 0, 0, "ok", &[src.part(g.as_ptr(), g.len())], -1, src.esize);
                for i in probes(U) {
                    poke(1, g.as_mut_slice(), i, 4000 + i as i64);
                }
            }
            log_read(0, &nums(&arr[..]));
        }
        // slices of native arrays <-> slices of GenericArrays (m chunks)
        _ => panic!("HARNESS: native api {}", api),
    }
}

fn chunk_casts<T: VE, N: ArrayLength, const U: usize>(api: &str, m: usize)
where
    generic_array::typenum::Const<U>: generic_array::IntoArrayLength<ArrayLength = N>,
{
    match api {
        "from_chunks" | "from_chunks_mut" => {
            let mut v: Vec<[T; U]> = (0..m).map(|c| core::array::from_fn(|i| T::from_num((c * U + i) as i64 + 1))).collect();
            let flat: Vec<i64> = v.iter().flat_map(|c| c.iter().map(|e| e.num())).collect();
            let src = Src::of(v.as_ptr() as *const T);
            log_src(&flat, src.esize);
            if api == "from_chunks" {
                let g: &[GenericArray<T, N>] = GenericArray::from_chunks(&v);
                log_view(api, U, m * U, 0, m, "ok", &[src.part(g.as_ptr() as *const T, g.len() * U)], g.len() as i64, src.esize);
                log_read(1, &g.iter().flat_map(|c| c.iter().map(|e| e.num())).collect::<Vec<_>>());
            } else {
                {
                    let g: &mut [GenericArray<T, N>] = GenericArray::from_chunks_mut(&mut v);
                    log_view(api, U, m * U, 0, m, "ok", &[src.part(g.as_ptr() as *const T, g.len() * U)], g.len() as i64, src.esize);
                    if U > 0 {
                        for c in probes(g.len()) {
                            let s = g[c].as_mut_slice();
                            s[U - 1] = T::from_num(5000 + c as i64);
                            ev!("\"ev\":\"vwrite\",\"part\":1,\"idx\":{},\"val\":{}", c * U + U - 1, s[U - 1].num());
                        }
                    }
                }
                log_read(0, &v.iter().flat_map(|c| c.iter().map(|e| e.num())).collect::<Vec<_>>());
            }
        }
        "into_chunks" | "into_chunks_mut" => {
            let mut v: Vec<GenericArray<T, N>> = (0..m).map(|c| GenericArray::generate(|i| T::from_num((c * U + i) as i64 + 1))).collect();
            let flat: Vec<i64> = v.iter().flat_map(|c| c.iter().map(|e| e.num())).collect();
            let src = Src::of(v.as_ptr() as *const T);
            log_src(&flat, src.esize);
            if api == "into_chunks" {
                let g: &[[T; U]] = GenericArray::into_chunks(&v);
                log_view(api, U, m * U, 0, m, "ok", &[src.part(g.as_ptr() as *const T, g.len() * U)], g.len() as i64, src.esize);
                log_read(1, &g.iter().flat_map(|c| c.iter().map(|e| e.num())).collect::<Vec<_>>());
            } else {
                let g: &mut [[T; U]] = GenericArray::into_chunks_mut(&mut v);
                log_view(api, U, m * U, 0, m, "ok", &[src.part(g.as_ptr() as *const T, g.len() * U)], g.len() as i64, src.esize);
                log_read(1, &g.iter().flat_map(|c| c.iter().map(|e| e.num())).collect::<Vec<_>>());
            }
        }
        _ => panic!("HARNESS: chunk cast api {}", api),
    }
}

/// &[T] / &mut [T] of length l reinterpreted as &GenericArray<T, N>
fn from_slice<T: VE, N: ArrayLength>(api: &str, n: usize, l: usize, shift: usize) {
    // the slice handed to the API starts `shift` elements into a larger buffer (not at an allocation boundary)
    let mut whole: Vec<T> = fillv::<T>(l + shift + 2);
    let v: &mut [T] = &mut whole[shift..shift + l];
    let src = Src::of(v.as_ptr());
    log_src(&nums(v), src.esize);
    let esize = src.esize;
    let ok = |g: &GenericArray<T, N>| {
        log_view(api, n, l, 0, 0, "ok", &[src.part(g.as_ptr(), g.len())], -1, esize);
        log_read(1, &nums(g.as_slice()));
    };
    match api {
        "from_slice" => match catch_unwind(AssertUnwindSafe(|| GenericArray::<T, N>::from_slice(&*v))) {
            Ok(g) => ok(g),
            Err(_) => log_view(api, n, l, 0, 0, "panic", &[], -1, esize),
        },
        "try_from_slice" => match GenericArray::<T, N>::try_from_slice(&*v) {
            Ok(g) => ok(g),
            Err(_) => log_view(api, n, l, 0, 0, "err", &[], -1, esize),
        },
        "tryfrom_ref" => match <&GenericArray<T, N>>::try_from(&*v) {
            Ok(g) => ok(g),
            Err(_) => log_view(api, n, l, 0, 0, "err", &[], -1, esize),
        },
        "from_mut_slice" | "try_from_mut_slice" | "tryfrom_mut" => {
            let r: Result<Option<&mut GenericArray<T, N>>, ()> = match api {
                "from_mut_slice" => {
                    let p: *mut [T] = v as *mut [T];
                    match catch_unwind(AssertUnwindSafe(|| GenericArray::<T, N>::from_mut_slice(unsafe { &mut *p }))) {
                        Ok(g) => Ok(Some(g)),
                        Err(_) => Err(()),
                    }
                }
                "try_from_mut_slice" => Ok(GenericArray::<T, N>::try_from_mut_slice(unsafe { &mut *(v as *mut [T]) }).ok()),
                _ => Ok(<&mut GenericArray<T, N>>::try_from(unsafe { &mut *(v as *mut [T]) }).ok()),
            };
            match r {
                Ok(Some(g)) => {
                    log_view(api, n, l, 0, 0, "ok", &[src.part(g.as_ptr(), g.len())], -1, esize);
                    for i in probes(g.len()) {
                        poke(1, g.as_mut_slice(), i, 6000 + i as i64);
                    }
                    log_read(0, &nums(&whole[shift..shift + l]));
                }
                Ok(None) => log_view(api, n, l, 0, 0, "err", &[], -1, esize),
                Err(()) => log_view(api, n, l, 0, 0, "panic", &[], -1, esize),
            }
        }
        _ => panic!("HARNESS: from_slice api {}", api),
    }
}

/// chunks_from_slice(_mut) on a slice of length l; slice_from_chunks(_mut) on m chunks
fn chunks<T: VE, N: ArrayLength>(api: &str, n: usize, l: usize, m: usize, shift: usize) {
    match api {
        "chunks_from_slice" => {
            let whole: Vec<T> = fillv::<T>(l + shift + 2);
            let v: &[T] = &whole[shift..shift + l];
            let src = Src::of(v.as_ptr());
            log_src(&nums(v), src.esize);
            match catch_unwind(AssertUnwindSafe(|| GenericArray::<T, N>::chunks_from_slice(v))) {
                Ok((c, r)) => {
                    log_view(api, n, l, 0, 0, "ok", &[src.part(c.as_ptr() as *const T, c.len() * n), src.part(r.as_ptr(), r.len())], c.len() as i64, src.esize);
                    log_read(1, &c.iter().flat_map(|x| x.iter().map(|e| e.num())).collect::<Vec<_>>());
                    log_read(2, &nums(r));
                }
                Err(_) => log_view(api, n, l, 0, 0, "panic", &[], -1, src.esize),
            }
        }
        "chunks_from_slice_mut" => {
            let mut whole: Vec<T> = fillv::<T>(l + shift + 2);
            let v: &mut [T] = &mut whole[shift..shift + l];
            let src = Src::of(v.as_ptr());
            log_src(&nums(v), src.esize);
            let p: *mut [T] = v as *mut [T];
            match catch_unwind(AssertUnwindSafe(|| GenericArray::<T, N>::chunks_from_slice_mut(unsafe { &mut *p }))) {
                Ok((c, r)) => {
                    log_view(api, n, l, 0, 0, "ok", &[src.part(c.as_ptr() as *const T, c.len() * n), src.part(r.as_ptr(), r.len())], c.len() as i64, src.esize);
                    let cl = c.len();
                    if n > 0 {
                        for ci in probes(cl) {
                            let s = c[ci].as_mut_slice();
                            s[n - 1] = T::from_num(7000 + ci as i64);
                            ev!("\"ev\":\"vwrite\",\"part\":1,\"idx\":{},\"val\":{}", ci * n + n - 1, s[n - 1].num());
                        }
                    }
                    for i in probes(r.len()) {
                        poke(2, r, i, 7500 + i as i64);
                    }
                    log_read(0, &nums(&whole[shift..shift + l]));
                }
                Err(_) => log_view(api, n, l, 0, 0, "panic", &[], -1, src.esize),
            }
        }
        "slice_from_chunks" | "slice_from_chunks_mut" => {
            let mut v: Vec<GenericArray<T, N>> = (0..m).map(|c| GenericArray::generate(|i| T::from_num((c * n + i) as i64 + 1))).collect();
            let flat: Vec<i64> = v.iter().flat_map(|c| c.iter().map(|e| e.num())).collect();
            let src = Src::of(v.as_ptr() as *const T);
            log_src(&flat, src.esize);
            if api == "slice_from_chunks" {
                let s = GenericArray::<T, N>::slice_from_chunks(&v);
                log_view(api, n, m * n, 0, m, "ok", &[src.part(s.as_ptr(), s.len())], -1, src.esize);
                log_read(1, &nums(s));
            } else {
                {
                    let s = GenericArray::<T, N>::slice_from_chunks_mut(&mut v);
                    log_view(api, n, m * n, 0, m, "ok", &[src.part(s.as_ptr(), s.len())], -1, src.esize);
                    for i in probes(s.len()) {
                        poke(1, s, i, 8000 + i as i64);
                    }
                }
                log_read(0, &v.iter().flat_map(|c| c.iter().map(|e| e.num())).collect::<Vec<_>>());
            }
        }
        _ => panic!("HARNESS: chunks api {}", api),
    }
}

fn split_ref<T: VE, N, K>(api: &str, n: usize, k: usize)
where
    N: ArrayLength + Sub<K>,
    K: ArrayLength,
    generic_array::typenum::Diff<N, K>: ArrayLength,
{
    let mut a: GenericArray<T, N> = fill::<T, N>();
    let src = Src::of(&a as *const _ as *const T);
    log_src(&nums(a.as_slice()), src.esize);
    if api == "split_ref" {
        let (x, y) = Split::<T, K>::split(&a);
        log_view(api, n, n, k, 0, "ok", &[src.part(x.as_ptr(), x.len()), src.part(y.as_ptr(), y.len())], -1, src.esize);
        log_read(1, &nums(x.as_slice()));
        log_read(2, &nums(y.as_slice()));
    } else {
        {
            let (x, y) = Split::<T, K>::split(&mut a);
            log_view(api, n, n, k, 0, "ok", &[src.part(x.as_ptr(), x.len()), src.part(y.as_ptr(), y.len())], -1, src.esize);
            for i in probes(x.len()) {
                poke(1, x.as_mut_slice(), i, 9000 + i as i64);
            }
            for i in probes(y.len()) {
                poke(2, y.as_mut_slice(), i, 9500 + i as i64);
            }
        }
        log_read(0, &nums(a.as_slice()));
    }
}

fn flat_ref<T: VE, N, M>(api: &str, n: usize, m: usize)
where
    N: ArrayLength + Mul<M>,
    M: ArrayLength,
    Prod<N, M>: ArrayLength,
{
    {
        {
            let mut aa: GenericArray<GenericArray<T, N>, M> = GenericArray::generate(|c| GenericArray::generate(|i| T::from_num((c * n + i) as i64 + 1)));
            let flat: Vec<i64> = aa.iter().flat_map(|c| c.iter().map(|e| e.num())).collect();
            let src = Src::of(&aa as *const _ as *const T);
            log_src(&flat, src.esize);
            if api == "flatten_ref" {
                let f: &GenericArray<T, Prod<N, M>> = Flatten::flatten(&aa);
                log_view(api, n, n * m, 0, m, "ok", &[src.part(f.as_ptr(), f.len())], -1, src.esize);
                log_read(1, &nums(f.as_slice()));
            } else {
                {
                    let f: &mut GenericArray<T, Prod<N, M>> = Flatten::flatten(&mut aa);
                    log_view(api, n, n * m, 0, m, "ok", &[src.part(f.as_ptr(), f.len())], -1, src.esize);
                    for i in probes(f.len()) {
                        poke(1, f.as_mut_slice(), i, 10000 + i as i64);
                    }
                }
                log_read(0, &aa.iter().flat_map(|c| c.iter().map(|e| e.num())).collect::<Vec<_>>());
            }
        }
    }
}

fn unflat_ref<T: VE, N, M>(api: &str, n: usize, m: usize)
where
    N: ArrayLength + Mul<M>,
    M: ArrayLength,
    Prod<N, M>: ArrayLength + Div<N>,
    Quot<Prod<N, M>, N>: ArrayLength,
{
    {
        {
            let mut a: GenericArray<T, Prod<N, M>> = fill::<T, Prod<N, M>>();
            let src = Src::of(&a as *const _ as *const T);
            log_src(&nums(a.as_slice()), src.esize);
            if api == "unflatten_ref" {
                let u: &GenericArray<GenericArray<T, N>, Quot<Prod<N, M>, N>> = Unflatten::<T, Prod<N, M>, N>::unflatten(&a);
                log_view(api, n, n * m, 0, m, "ok", &[src.part(u.as_ptr() as *const T, u.len() * n)], u.len() as i64, src.esize);
                log_read(1, &u.iter().flat_map(|c| c.iter().map(|e| e.num())).collect::<Vec<_>>());
            } else {
                {
                    let u: &mut GenericArray<GenericArray<T, N>, Quot<Prod<N, M>, N>> = Unflatten::<T, Prod<N, M>, N>::unflatten(&mut a);
                    log_view(api, n, n * m, 0, m, "ok", &[src.part(u.as_ptr() as *const T, u.len() * n)], u.len() as i64, src.esize);
                    let ul = u.len();
                    for c in probes(ul) {
                        let s = u[c].as_mut_slice();
                        s[0] = T::from_num(11000 + c as i64);
                        ev!("\"ev\":\"vwrite\",\"part\":1,\"idx\":{},\"val\":{}", c * n, s[0].num());
                    }
                }
                log_read(0, &nums(a.as_slice()));
            }
        }
    }
}

fn run_one<T: VE>(d: &J) {
    let api = d["api"].as_str().unwrap();
    let g = |k: &str| d.get(k).and_then(|x| x.as_u64()).unwrap_or(0) as usize;
    let (n, l, k, m) = (g("n"), g("l"), g("k"), g("m"));
    let bad = || -> () { panic!("HARNESS: views: unsupported lengths {:?}", d) };
    match api {
        "as_slice" | "deref" | "asref_slice" | "borrow" | "as_mut_slice" | "deref_mut" | "asmut_slice" | "borrow_mut" | "iter" | "ref_into_iter" | "iter_mut" | "mut_into_iter" => with_len!(n, N => whole::<T, N>(api, n), bad()),
        "index" | "index_mut" | "get" => with_len!(n, N => index_views::<T, N>(api, n, l), bad()),
        "asref_array" | "asmut_array" | "from_array_ref" | "from_array_mut" => with_const!(n, C, N => native_views::<T, N, C>(api), bad()),
        "from_chunks" | "from_chunks_mut" | "into_chunks" | "into_chunks_mut" => with_const!(n, C, N => chunk_casts::<T, N, C>(api, m), bad()),
        "from_slice" | "try_from_slice" | "tryfrom_ref" | "from_mut_slice" | "try_from_mut_slice" | "tryfrom_mut" => with_len!(n, N => from_slice::<T, N>(api, n, l, k), bad()),
        "chunks_from_slice" | "chunks_from_slice_mut" | "slice_from_chunks" | "slice_from_chunks_mut" => with_len!(n, N => chunks::<T, N>(api, n, l, m, k), bad()),
        "split_ref" | "split_mut" => with_split!(n, k, N, K => split_ref::<T, N, K>(api, n, k), bad()),
        "flatten_ref" | "flatten_mut" => with_flat!(n, m, N, M => flat_ref::<T, N, M>(api, n, m), bad()),
        "unflatten_ref" | "unflatten_mut" => with_unflat!(n, m, N, M => unflat_ref::<T, N, M>(api, n, m), bad()),
        _ => panic!("HARNESS: views api {}", api),
    }
}

pub fn run_case(scn: &J) {
    let d = &scn["d"];
    ev!("\"ev\":\"case_start\",\"case\":{},\"prop\":{},\"ety\":\"plain\",\"rec\":false", crate::events::jstr(scn["case"].as_str().unwrap_or("")), crate::events::jstr(scn["prop"].as_str().unwrap_or("")));
    crate::events::flush();
    match d["ety"].as_str().unwrap_or("u64") {
        "unit" => run_one::<()>(d),
        "u8" => run_one::<u8>(d),
        "u32" => run_one::<u32>(d),
        "u8u16" => run_one::<(u8, u16)>(d),
        "b24" => run_one::<[u8; 24]>(d),
        "owned" => run_one::<VOwned>(d),
        _ => run_one::<u64>(d),
    }
    ev!("\"ev\":\"case_end\"");
    crate::events::flush();
}
