//! Termination watchdog.  An operation of the library that does not return is data, not a tool failure:
//! when no event has been logged for GAH_HANG_S seconds (default 60), or one case has logged more than
//! GAH_CASE_EVENTS events (default 2,000,000: a loop that keeps calling back), the log is flushed if possible
//! and the process ends with exit code 86 and a line "@hang ..." on stderr; the runner records that as an
//! `exit` event of class "hang", which no action of the specification explains.
use std::sync::atomic::{AtomicU64, Ordering};

static TICKS: AtomicU64 = AtomicU64::new(0);
static CASE_EVENTS: AtomicU64 = AtomicU64::new(0);
static CASE_CAP: AtomicU64 = AtomicU64::new(2_000_000);

pub fn case_start() {
    CASE_EVENTS.store(0, Ordering::Relaxed);
    TICKS.fetch_add(1, Ordering::Relaxed);
}

/// called for every logged event (before the log's lock is taken)
pub fn tick() {
    TICKS.fetch_add(1, Ordering::Relaxed);
    if CASE_EVENTS.fetch_add(1, Ordering::Relaxed) > CASE_CAP.load(Ordering::Relaxed) {
        crate::events::RECORD_ALLOC.store(false, Ordering::SeqCst);
        crate::events::try_flush();
        eprintln!("@hang runaway: one case logged more than {} events", CASE_CAP.load(Ordering::Relaxed));
        std::process::exit(86);
    }
}

fn env_u64(name: &str, dflt: u64) -> u64 {
    std::env::var(name).ok().and_then(|s| s.parse().ok()).unwrap_or(dflt)
}

pub fn start() {
    let limit = env_u64("GAH_HANG_S", 60);
    CASE_CAP.store(env_u64("GAH_CASE_EVENTS", 2_000_000), Ordering::Relaxed);
    std::thread::Builder::new()
        .name("watchdog".into())
        .spawn(move || {
            // no allocation in this loop: the recording allocator's bypass counter is process-wide
            let mut last = TICKS.load(Ordering::Relaxed);
            let mut idle_ms: u64 = 0;
            loop {
                std::thread::sleep(std::time::Duration::from_millis(250));
                let t = TICKS.load(Ordering::Relaxed);
                if t != last {
                    last = t;
                    idle_ms = 0;
                } else {
                    idle_ms += 250;
                    if idle_ms >= limit * 1000 {
                        crate::events::RECORD_ALLOC.store(false, Ordering::SeqCst);
                        crate::events::try_flush();
                        eprintln!("@hang no event for {} s: an operation did not return", limit);
                        std::process::exit(86);
                    }
                }
            }
        })
        .expect("HARNESS: watchdog");
}
