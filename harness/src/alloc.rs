//! Recording global allocator (C15/C16).  Events are logged only while RECORD_ALLOC is on and
//! the harness itself is not allocating (BYPASS).  Blocks are named by small ids.
use crate::events::{bypassed, Bypass, RECORD_ALLOC};
use std::alloc::{GlobalAlloc, Layout, System};
use std::sync::atomic::{AtomicI64, AtomicUsize, Ordering};
use std::sync::Mutex;

pub struct Rec;
pub static NEXT_BLK: AtomicI64 = AtomicI64::new(1);
/// fail the k-th recorded allocation (1-based); 0 = never
pub static FAIL_AT: AtomicUsize = AtomicUsize::new(0);
pub static ALLOC_COUNT: AtomicUsize = AtomicUsize::new(0);
static BLOCKS: Mutex<Vec<(usize, usize, i64)>> = Mutex::new(Vec::new()); // (addr, size, id)

pub fn reset() {
    let _b = Bypass::new();
    BLOCKS.lock().unwrap().clear();
    NEXT_BLK.store(1, Ordering::SeqCst);
    ALLOC_COUNT.store(0, Ordering::SeqCst);
    CALL_ALLOCS.store(0, Ordering::SeqCst);
    FAIL_AT.store(0, Ordering::SeqCst);
}

/// id of the live recorded block containing `p`, 0 if none (dangling / not recorded)
pub fn block_of(p: *const u8) -> i64 {
    let _b = Bypass::new();
    let a = p as usize;
    let g = match BLOCKS.lock() { Ok(g) => g, Err(p) => p.into_inner() };
    for (addr, size, id) in g.iter() {
        if a >= *addr && a < *addr + (*size).max(1) {
            return *id;
        }
    }
    0
}

/// inside a library call (allocations made there are the library's)
pub static IN_LIB: AtomicUsize = AtomicUsize::new(0);
/// allocations made inside the current library call
pub static CALL_ALLOCS: AtomicUsize = AtomicUsize::new(0);

/// Scope of a library call: allocations are recorded (the harness's own bookkeeping inside
/// callbacks is bypassed by `ev!`).  Restores the previous state also when unwinding.
pub struct LibScope {
    saved_bypass: usize,
}
impl LibScope {
    pub fn enter() -> LibScope {
        let saved = crate::events::BYPASS.swap(0, Ordering::SeqCst);
        IN_LIB.fetch_add(1, Ordering::SeqCst);
        LibScope { saved_bypass: saved }
    }
}
impl Drop for LibScope {
    fn drop(&mut self) {
        IN_LIB.fetch_sub(1, Ordering::SeqCst);
        crate::events::BYPASS.store(self.saved_bypass, Ordering::SeqCst);
    }
}
pub fn lib<R>(f: impl FnOnce() -> R) -> R {
    let _s = LibScope::enter();
    f()
}

thread_local! {
    /// only the thread that executes scenarios is recorded: the watchdog (and the runtime's own start-up work in
    /// other threads, whose timing depends on the machine's load) must never show up in a trace
    static WORKER: std::cell::Cell<bool> = const { std::cell::Cell::new(false) };
}
pub fn mark_worker_thread() {
    WORKER.with(|w| w.set(true));
}
fn on_worker() -> bool {
    WORKER.try_with(|w| w.get()).unwrap_or(false)
}
fn recording() -> bool {
    RECORD_ALLOC.load(Ordering::SeqCst) && IN_LIB.load(Ordering::SeqCst) > 0 && !bypassed() && on_worker()
}
fn recording_raw() -> bool {
    RECORD_ALLOC.load(Ordering::SeqCst) && IN_LIB.load(Ordering::SeqCst) > 0 && on_worker()
}
fn known(p: *mut u8) -> bool {
    // never while the harness itself is allocating / logging (the BLOCKS lock may be held)
    if !RECORD_ALLOC.load(Ordering::SeqCst) || bypassed() || !on_worker() {
        return false;
    }
    let _b = Bypass::new();
    match BLOCKS.lock() {
        Ok(g) => g.iter().any(|b| b.0 == p as usize),
        Err(_) => false,
    }
}

unsafe impl GlobalAlloc for Rec {
    unsafe fn alloc(&self, l: Layout) -> *mut u8 {
        if !recording() {
            return System.alloc(l);
        }
        let _b = Bypass::new();
        ALLOC_COUNT.fetch_add(1, Ordering::SeqCst);
        let k = CALL_ALLOCS.fetch_add(1, Ordering::SeqCst) + 1;
        if FAIL_AT.load(Ordering::SeqCst) == k {
            crate::ev!("\"ev\":\"alloc_fail\",\"size\":{},\"align\":{}", l.size(), l.align());
            crate::events::flush();
            // whatever follows is the process ending: nothing more is recorded
            RECORD_ALLOC.store(false, Ordering::SeqCst);
            return std::ptr::null_mut();
        }
        let p = System.alloc(l);
        let id = NEXT_BLK.fetch_add(1, Ordering::SeqCst);
        BLOCKS.lock().unwrap().push((p as usize, l.size(), id));
        crate::ev!("\"ev\":\"alloc\",\"p\":{},\"size\":{},\"align\":{}", id, l.size(), l.align());
        p
    }
    unsafe fn dealloc(&self, p: *mut u8, l: Layout) {
        if known(p) {
            let _b = Bypass::new();
            let mut g = BLOCKS.lock().unwrap();
            let id = match g.iter().position(|b| b.0 == p as usize) {
                Some(i) => g.remove(i).2,
                None => 0, // allocated before recording started (or unknown)
            };
            drop(g);
            if id != 0 {
                crate::ev!("\"ev\":\"dealloc\",\"p\":{},\"size\":{},\"align\":{}", id, l.size(), l.align());
            }
        }
        System.dealloc(p, l)
    }
    unsafe fn realloc(&self, p: *mut u8, l: Layout, new: usize) -> *mut u8 {
        if !known(p) && !recording() {
            return System.realloc(p, l, new);
        }
        let _b = Bypass::new();
        if recording_raw() {
            let k = CALL_ALLOCS.fetch_add(1, Ordering::SeqCst) + 1;
            if FAIL_AT.load(Ordering::SeqCst) == k {
                crate::ev!("\"ev\":\"alloc_fail\",\"size\":{},\"align\":{}", new, l.align());
                crate::events::flush();
                RECORD_ALLOC.store(false, Ordering::SeqCst);
                return std::ptr::null_mut();
            }
        }
        // a recorded realloc always MOVES the block and poisons the old one (the allocator contract allows it; the
        // system allocator usually shrinks in place, which would hide a pointer kept across the call)
        let q = {
            let nl = Layout::from_size_align_unchecked(new, l.align());
            let q = System.alloc(nl);
            if !q.is_null() {
                std::ptr::copy_nonoverlapping(p, q, l.size().min(new));
                std::ptr::write_bytes(p, 0xDD, l.size());
                System.dealloc(p, l);
            }
            q
        };
        let mut g = BLOCKS.lock().unwrap();
        let old = match g.iter().position(|b| b.0 == p as usize) {
            Some(i) => g.remove(i).2,
            None => 0,
        };
        let id = NEXT_BLK.fetch_add(1, Ordering::SeqCst);
        g.push((q as usize, new, id));
        drop(g);
        crate::ev!("\"ev\":\"realloc\",\"p\":{},\"q\":{},\"size\":{},\"align\":{},\"new\":{}", old, id, l.size(), l.align(), new);
        q
    }
}
