//! Conformance harness driver: executes scenarios against the real generic-array code.
pub mod alloc;
pub mod big;
pub mod elems;
pub mod events;
pub mod interp;
pub mod serde_drv;
pub mod vals;
pub mod views;
pub mod watchdog;

#[global_allocator]
static GLOBAL: alloc::Rec = alloc::Rec;

use serde_json::Value as J;
use std::io::BufRead;

fn main() {
    let args: Vec<String> = std::env::args().collect();
    if args.len() < 2 {
        eprintln!("usage: drv script <scenarios.ndjson> <trace.ndjson> [--from K]");
        std::process::exit(2);
    }
    // injected panics are data, not noise
    std::panic::set_hook(Box::new(|info| {
        if info.payload().is::<elems::Injected>() {
            return;
        }
        let _b = events::Bypass::new();
        let msg = format!("{}", info);
        if msg.contains("HARNESS") {
            eprintln!("{}", msg);
        }
    }));
    watchdog::start();
    // debug-build frames of the generated dispatch functions are large: run on a big stack
    // (address space only: pages are committed as they are touched; fall back if the reservation is refused)
    let stack_mb: usize = std::env::var("GAH_STACK_MB").ok().and_then(|s| s.parse().ok()).unwrap_or(4096);
    let mut h = None;
    for mb in [stack_mb, 2048, 1024] {
        let a = args.clone();
        if let Ok(t) = std::thread::Builder::new().stack_size(mb << 20).spawn(move || dispatch(a)) {
            h = Some(t);
            break;
        }
    }
    let h = h.expect("HARNESS: spawn");
    if h.join().is_err() {
        std::process::exit(101);
    }
}

fn dispatch(args: Vec<String>) {
    alloc::mark_worker_thread();
    match args[1].as_str() {
        "script" => run_script(&args[2], &args[3], flag(&args, "--from").unwrap_or(0), flag(&args, "--count").unwrap_or(usize::MAX)),
        "big" => run_each(&args[2], &args[3], flag(&args, "--from").unwrap_or(0), flag(&args, "--count").unwrap_or(usize::MAX), big::run_case),
        "views" => run_each(&args[2], &args[3], flag(&args, "--from").unwrap_or(0), flag(&args, "--count").unwrap_or(usize::MAX), views::run_case),
        x => {
            eprintln!("unknown subcommand {}", x);
            std::process::exit(2);
        }
    }
}

fn flag(args: &[String], name: &str) -> Option<usize> {
    args.iter().position(|a| a == name).and_then(|i| args.get(i + 1)).and_then(|v| v.parse().ok())
}

fn run_each(scn: &str, out: &str, from: usize, count: usize, f: fn(&J)) {
    let rd = std::io::BufReader::new(std::fs::File::open(scn).expect("HARNESS: scenario file"));
    events::open(out);
    for (i, line) in rd.lines().enumerate() {
        let line = line.unwrap();
        if i < from || i - from >= count || line.trim().is_empty() {
            continue;
        }
        let j: J = serde_json::from_str(&line).expect("HARNESS: scenario json");
        eprintln!("@case {}", i);
        watchdog::case_start();
        f(&j);
    }
    events::flush();
}

fn run_script(scn: &str, out: &str, from: usize, count: usize) {
    let f = std::io::BufReader::new(std::fs::File::open(scn).expect("HARNESS: scenario file"));
    events::open(out);
    let mut tk = interp::Interp::<elems::Tk>::new();
    let mut pl = interp::Interp::<elems::Pl>::new();
    for (i, line) in f.lines().enumerate() {
        let line = line.unwrap();
        if i < from || i - from >= count || line.trim().is_empty() {
            continue;
        }
        let j: J = serde_json::from_str(&line).expect("HARNESS: scenario json");
        // progress marker for the runner: which scenario is running (survives an abort)
        eprintln!("@case {}", i);
        watchdog::case_start();
        match j.get("ety").and_then(|x| x.as_str()).unwrap_or("tk") {
            "plain" => {
                pl = interp::Interp::new();
                pl.run_case(&j)
            }
            "zst" => interp::Interp::<elems::TkZ>::new().run_case(&j),
            "plz" => interp::Interp::<elems::PlZ>::new().run_case(&j),
            "tk24" => interp::Interp::<elems::Tk24>::new().run_case(&j),
            "tk1k" => interp::Interp::<elems::Tk1k>::new().run_case(&j),
            "p1" => interp::Interp::<elems::P1>::new().run_case(&j),
            _ => {
                tk = interp::Interp::new();
                tk.run_case(&j)
            }
        }
    }
    let _ = (&tk, &pl);
    events::flush();
}
