//! C15: the boxed constructors build arrays far larger than the thread's stack.
//! Each construction runs on a thread with a 256 KiB stack; a stack overflow kills the process
//! (the runner records that as an `exit` event, which the specification does not accept).
use crate::ev;
use generic_array::sequence::GenericSequence;
use generic_array::typenum::{U1048576, U524288};
use generic_array::{box_arr, GenericArray};
use serde_json::Value as J;

type N8 = U1048576; // x u64 = 8 MiB
type N4 = U524288; // x u64 = 4 MiB

#[derive(Clone)]
struct Big16k([u64; 2048]);
impl Default for Big16k {
    fn default() -> Self {
        Big16k([0; 2048])
    }
}

#[derive(Clone)]
struct Big512k([u64; 65536]);
impl Default for Big512k {
    fn default() -> Self {
        Big512k([0; 65536])
    }
}

fn summarize(op: &str, s: &[u64], bytes: usize) {
    let n = s.len();
    let first = s.first().copied().unwrap_or(0);
    let last = s.last().copied().unwrap_or(0);
    let mid = s.get(n / 2).copied().unwrap_or(0);
    let sum: u64 = s.iter().fold(0u64, |a, x| a.wrapping_add(*x)) % 1_000_003;
    ev!("\"ev\":\"big\",\"op\":\"{}\",\"n\":{},\"bytes\":{},\"first\":{},\"mid\":{},\"last\":{},\"sum\":{}", op, n, bytes, first, mid, last, sum);
}

fn build(op: String) {
    match op.as_str() {
        "default_boxed" => {
            let b = GenericArray::<u64, N8>::default_boxed();
            summarize(&op, b.as_slice(), std::mem::size_of_val(&*b));
        }
        "generate" => {
            let b = Box::<GenericArray<u64, N8>>::generate(|i| (i % 1000) as u64);
            summarize(&op, b.as_slice(), std::mem::size_of_val(&*b));
        }
        "box_arr_repeat" => {
            let b: Box<GenericArray<u64, N4>> = box_arr![7u64; N4];
            summarize(&op, b.as_slice(), std::mem::size_of_val(&*b));
        }
        "boxed_from_iter" => {
            let b: Box<GenericArray<u64, N8>> = (0..1048576u64).map(|i| i % 1000).collect();
            summarize(&op, b.as_slice(), std::mem::size_of_val(&*b));
        }
        "try_boxed_from_iter" => {
            let b = GenericArray::<u64, N4>::try_boxed_from_iter((0..524288u64).map(|i| i % 1000)).unwrap();
            summarize(&op, b.as_slice(), std::mem::size_of_val(&*b));
        }
        "boxed_map" => {
            let b = GenericArray::<u64, N4>::default_boxed();
            use generic_array::functional::FunctionalSequence;
            let c: Box<GenericArray<u64, N4>> = b.map(|x| x + 3);
            summarize(&op, c.as_slice(), std::mem::size_of_val(&*c));
        }
        "boxed_clone_into_vec" => {
            let b = Box::<GenericArray<u64, N4>>::generate(|i| (i % 1000) as u64);
            let v = b.clone().into_vec();
            summarize(&op, &v, v.len() * 8);
        }
        // few, very large elements: 256 x 16 KiB = 4 MiB
        "generate_bigelem" => {
            let b = Box::<GenericArray<[u64; 2048], generic_array::typenum::U256>>::generate(|i| [(i % 1000) as u64; 2048]);
            let flat: Vec<u64> = b.iter().map(|e| e[2047]).collect();
            summarize(&op, &flat, std::mem::size_of_val(&*b));
        }
        "default_boxed_bigelem" => {
            let b = GenericArray::<[u64; 32], generic_array::typenum::U192>::default_boxed();
            let b2 = GenericArray::<Big16k, generic_array::typenum::U192>::default_boxed();
            let flat: Vec<u64> = b.iter().map(|e| e[31]).chain(b2.iter().map(|e| e.0[2047])).collect();
            summarize(&op, &flat, std::mem::size_of_val(&*b) + std::mem::size_of_val(&*b2));
        }
        // N <= 32 with elements so large that even a handful exceeds the stack
        "default_boxed_32x16k" => {
            let b = GenericArray::<Big16k, generic_array::typenum::U32>::default_boxed();
            let flat: Vec<u64> = b.iter().map(|e| e.0[2047]).collect();
            summarize(&op, &flat, std::mem::size_of_val(&*b));
        }
        "generate_8x128k" => {
            let b = Box::<GenericArray<[u64; 16384], generic_array::typenum::U8>>::generate(|i| [(i % 1000) as u64; 16384]);
            let flat: Vec<u64> = b.iter().map(|e| e[16383]).collect();
            summarize(&op, &flat, std::mem::size_of_val(&*b));
        }
        "default_boxed_1x512k" => {
            let b = GenericArray::<Big512k, generic_array::typenum::U1>::default_boxed();
            let flat: Vec<u64> = b.iter().map(|e| e.0[65535]).collect();
            summarize(&op, &flat, std::mem::size_of_val(&*b));
        }
        _ => panic!("HARNESS: big op {}", op),
    }
}

pub fn run_case(scn: &J) {
    ev!("\"ev\":\"case_start\",\"case\":{},\"prop\":{},\"ety\":\"plain\",\"rec\":false", crate::events::jstr(scn["case"].as_str().unwrap_or("")), crate::events::jstr(scn["prop"].as_str().unwrap_or("")));
    crate::events::flush();
    let op = scn["d"]["op"].as_str().unwrap().to_string();
    let h = std::thread::Builder::new().stack_size(256 * 1024).spawn(move || build(op)).expect("HARNESS: spawn");
    let ok = h.join().is_ok();
    ev!("\"ev\":\"big_done\",\"ok\":{}", ok);
    ev!("\"ev\":\"case_end\"");
    crate::events::flush();
}
