//! C15: the boxed constructors build arrays far larger than the thread's stack.
//! Each construction runs on a thread with a 256 KiB stack; a stack overflow kills the process
//! (the runner records that as an `exit` event, which the specification does not accept).
//! Every constructor is run over every SHAPE: many small elements, and few elements of 16 KiB each
//! (256, 64 and 32 of them: a fast path chosen by element COUNT must still not build on the stack).
use crate::ev;
use generic_array::functional::FunctionalSequence;
use generic_array::sequence::GenericSequence;
use generic_array::typenum::{U1048576, U256, U32, U64};
use generic_array::{box_arr, ArrayLength, GenericArray};
use serde_json::Value as J;

trait BigElem: Clone + Default + Send + 'static {
    fn of(v: u64) -> Self;
    fn probe(&self) -> u64;
}
impl BigElem for u64 {
    fn of(v: u64) -> u64 {
        v
    }
    fn probe(&self) -> u64 {
        *self
    }
}
/// 16 KiB
#[derive(Clone)]
struct Big16k([u64; 2048]);
impl Default for Big16k {
    fn default() -> Self {
        Big16k([0; 2048])
    }
}
impl BigElem for Big16k {
    fn of(v: u64) -> Self {
        Big16k([v; 2048])
    }
    fn probe(&self) -> u64 {
        self.0[2047]
    }
}

fn summarize<E: BigElem>(op: &str, shape: &str, s: &[E], bytes: usize) {
    let n = s.len();
    let first = s.first().map(|e| e.probe()).unwrap_or(0);
    let last = s.last().map(|e| e.probe()).unwrap_or(0);
    let mid = s.get(n / 2).map(|e| e.probe()).unwrap_or(0);
    let sum: u64 = s.iter().fold(0u64, |a, x| a.wrapping_add(x.probe())) % 1_000_003;
    ev!("\"ev\":\"big\",\"op\":\"{}\",\"shape\":\"{}\",\"n\":{},\"bytes\":{},\"first\":{},\"mid\":{},\"last\":{},\"sum\":{}", op, shape, n, bytes, first, mid, last, sum);
}

/// consumers of a large boxed array: only a checksum comes out (event `bigfold`)
fn consume<E: BigElem, N: ArrayLength>(op: &str, shape: &str) {
    let b = Box::<GenericArray<E, N>>::generate(|i| E::of((i % 1000) as u64));
    let n = b.len();
    let sum: u64 = match op {
        "boxed_fold" => b.fold(0u64, |a, x| a.wrapping_add(x.probe())),
        "boxed_into_iter" => b.into_iter().fold(0u64, |a, x| a.wrapping_add(x.probe())),
        _ => panic!("HARNESS: big consumer {}", op),
    } % 1_000_003;
    ev!("\"ev\":\"bigfold\",\"op\":\"{}\",\"shape\":\"{}\",\"n\":{},\"sum\":{}", op, shape, n, sum);
}

/// box_arr! with a list of 32 elements of 16 KiB each (512 KiB of operands on a 256 KiB stack)
fn list32(op: &str, shape: &str) {
    // (operands are named constants: what a caller's own operand expressions put on the stack is not the crate's doing)
    macro_rules! kdef { ($($n:ident = $i:literal),*) => { $(const $n: Big16k = Big16k([$i; 2048]);)* }; }
    kdef!(K0 = 0, K1 = 1, K2 = 2, K3 = 3, K4 = 4, K5 = 5, K6 = 6, K7 = 7, K8 = 8, K9 = 9, K10 = 10, K11 = 11, K12 = 12, K13 = 13, K14 = 14, K15 = 15, K16 = 16, K17 = 17, K18 = 18, K19 = 19, K20 = 20, K21 = 21, K22 = 22, K23 = 23, K24 = 24, K25 = 25, K26 = 26, K27 = 27, K28 = 28, K29 = 29, K30 = 30, K31 = 31);
    let b: Box<GenericArray<Big16k, U32>> = box_arr![K0, K1, K2, K3, K4, K5, K6, K7, K8, K9, K10, K11, K12, K13, K14, K15, K16, K17, K18, K19, K20, K21, K22, K23, K24, K25, K26, K27, K28, K29, K30, K31];
    summarize(op, shape, b.as_slice(), std::mem::size_of_val(&*b));
}

fn build<E: BigElem, N: ArrayLength>(op: &str, shape: &str) {
    if op == "boxed_fold" || op == "boxed_into_iter" {
        return consume::<E, N>(op, shape);
    }
    let n = N::USIZE as u64;
    let b: Box<GenericArray<E, N>> = match op {
        "default_boxed" => GenericArray::<E, N>::default_boxed(),
        "generate" => Box::<GenericArray<E, N>>::generate(|i| E::of((i % 1000) as u64)),
        "box_arr_repeat" => box_arr![E::of(7); N],
        "boxed_from_iter" => (0..n).map(|i| E::of(i % 1000)).collect(),
        "try_boxed_from_iter" => GenericArray::<E, N>::try_boxed_from_iter((0..n).map(|i| E::of(i % 1000))).unwrap(),
        "try_from_vec" => {
            let v: Vec<E> = (0..n).map(|i| E::of(i % 1000)).collect();
            GenericArray::<E, N>::try_from_vec(v).unwrap()
        }
        "boxed_map" => {
            let b = GenericArray::<E, N>::default_boxed();
            b.map(|x| E::of(x.probe() + 3))
        }
        // (zip of boxes goes through four by-value iterator adaptors: with 16 KiB elements their frames alone
        //  exceed this stack in a debug build, whatever N is; zip is not among the constructors the property names)
        _ => panic!("HARNESS: big op {}", op),
    };
    summarize(op, shape, b.as_slice(), std::mem::size_of_val(&*b));
}

// ---- sequence operations and serde at lengths far above the value pool's (2048, 2049, 4097): contents are
// summarised as [len, first, last, sum mod 1000003]; the elements are their own indices 0..n-1 ------------------------
fn summ(s: &[u64]) -> String {
    let sum = s.iter().fold(0u64, |a, x| (a + *x) % 1_000_003);
    format!("[{},{},{},{}]", s.len(), s.first().map(|x| *x as i64).unwrap_or(-1), s.last().map(|x| *x as i64).unwrap_or(-1), sum)
}
fn bigseq<N>(op: &str, arg: usize)
where
    N: ArrayLength + std::ops::Add<generic_array::typenum::B1> + std::ops::Sub<generic_array::typenum::B1> + std::ops::Sub<generic_array::typenum::U1> + std::ops::Sub<generic_array::typenum::U1024>,
    generic_array::typenum::Add1<N>: ArrayLength + std::ops::Sub<generic_array::typenum::B1, Output = N>,
    generic_array::typenum::Sub1<N>: ArrayLength + std::ops::Add<generic_array::typenum::B1, Output = N>,
    generic_array::typenum::Diff<N, generic_array::typenum::U1>: ArrayLength,
    generic_array::typenum::Diff<N, generic_array::typenum::U1024>: ArrayLength,
    generic_array::typenum::U1: std::ops::Add<generic_array::typenum::Diff<N, generic_array::typenum::U1>, Output = N>,
    generic_array::typenum::U1024: std::ops::Add<generic_array::typenum::Diff<N, generic_array::typenum::U1024>, Output = N>,
{
    use generic_array::sequence::{Concat, Lengthen, Remove, Shorten, Split};
    use generic_array::typenum::{U1, U1024};
    let n = N::USIZE;
    let a: Box<GenericArray<u64, N>> = Box::<GenericArray<u64, N>>::generate(|i| i as u64);
    let a: GenericArray<u64, N> = *a;
    let (removed, outs): (i64, Vec<String>) = match op {
        "remove" => { let (x, r) = a.remove(arg); (x as i64, vec![summ(&r), format!("[{}]", r.get(arg).map(|v| *v as i64).unwrap_or(-1))]) }
        "swap_remove" => { let (x, r) = a.swap_remove(arg); (x as i64, vec![summ(&r), format!("[{}]", r.get(arg).map(|v| *v as i64).unwrap_or(-1))]) }
        "pop_back" => { let (r, x) = a.pop_back(); (x as i64, vec![summ(&r)]) }
        "pop_front" => { let (x, r) = a.pop_front(); (x as i64, vec![summ(&r)]) }
        "append" => { let r = a.append(n as u64); (-1, vec![summ(&r)]) }
        "prepend" => { let r = a.prepend(n as u64); (-1, vec![summ(&r)]) }
        "split1" => { let (x, y) = Split::<u64, U1>::split(a); let o = vec![summ(&x), summ(&y)]; let back: GenericArray<u64, N> = Concat::concat(x, y); (-1, [o, vec![summ(&back)]].concat()) }
        "split1024" => { let (x, y) = Split::<u64, U1024>::split(a); let o = vec![summ(&x), summ(&y)]; let back: GenericArray<u64, N> = Concat::concat(x, y); (-1, [o, vec![summ(&back)]].concat()) }
        _ => panic!("HARNESS: bigseq op {}", op),
    };
    ev!("\"ev\":\"bigseq\",\"op\":\"{}\",\"n\":{},\"arg\":{},\"removed\":{},\"outs\":[{}]", op, n, arg as i64, removed, outs.join(","));
}
fn bigserde<N: ArrayLength>() {
    let n = N::USIZE;
    let a: Box<GenericArray<u32, N>> = Box::<GenericArray<u32, N>>::generate(|i| i as u32);
    let bin = bincode::serialize(&*a).unwrap();
    let back: Result<Box<GenericArray<u32, N>>, _> = bincode::deserialize(&bin);
    let bin_ok = back.as_ref().map(|b| b.as_slice() == a.as_slice()).unwrap_or(false);
    let json = serde_json::to_string(&*a).unwrap();
    let jback: Result<Box<GenericArray<u32, N>>, _> = serde_json::from_str(&json);
    let json_ok = jback.as_ref().map(|b| b.as_slice() == a.as_slice()).unwrap_or(false);
    // one element too many / too few in a self-describing format
    let longer = format!("{},0]", &json[..json.len() - 1]);
    let too_long_rejected = serde_json::from_str::<Box<GenericArray<u32, N>>>(&longer).is_err();
    let shorter = format!("{}]", &json[..json.rfind(',').unwrap()]);
    let too_short_rejected = serde_json::from_str::<Box<GenericArray<u32, N>>>(&shorter).is_err();
    ev!("\"ev\":\"bigserde\",\"n\":{},\"bin_len\":{},\"bin_ok\":{},\"json_ok\":{},\"too_long_rejected\":{},\"too_short_rejected\":{}", n, bin.len(), bin_ok, json_ok, too_long_rejected, too_short_rejected);
}
/// views of slices of zero-sized elements whose length no sized slice can have
fn zsthuge<N: ArrayLength>(lcode: &str) {
    let l: usize = match lcode { "isize_max_plus_1" => (isize::MAX as usize) + 1, "2^63+5" => (1usize << 63) + 5, _ => usize::MAX };
    let s: &[()] = unsafe { std::slice::from_raw_parts(std::ptr::NonNull::<()>::dangling().as_ptr(), l) };
    let (chunks, rem) = GenericArray::<(), N>::chunks_from_slice(s);
    let flat = GenericArray::<(), N>::slice_from_chunks(chunks);
    let n = N::USIZE;
    ev!("\"ev\":\"zsthuge\",\"n\":{},\"l\":\"{}\",\"count_ok\":{},\"rem_ok\":{},\"flat_ok\":{}", n, lcode, chunks.len() == l / n, rem.len() == l % n, flat.len() == (l / n) * n);
}

/// borrowed views and reinterpretations of arrays of zero-sized elements whose LENGTH no sized array can have (C02);
/// lengths travel as two 32-bit halves
fn zstviews<N: ArrayLength>() {
    use core::borrow::{Borrow, BorrowMut};
    let n = N::USIZE;
    let half = |x: usize| format!("\"hi\":{},\"lo\":{}", (x as u64) >> 32, (x as u64) & 0xffff_ffff);
    // O(1): a zero-sized value needs no initialisation
    let mut a: GenericArray<(), N> = unsafe { GenericArray::assume_init(GenericArray::<(), N>::uninit()) };
    let base = &a as *const GenericArray<(), N> as usize;
    let mut views: Vec<String> = Vec::new();
    let mut view = |name: &str, len: usize, addr: usize| views.push(format!("{{\"v\":\"{}\",{},\"addr_ok\":{}}}", name, half(len), addr == base));
    view("len", a.len(), base);
    { let s = a.as_slice(); view("as_slice", s.len(), s.as_ptr() as usize); }
    { let s = a.as_mut_slice(); view("as_mut_slice", s.len(), s.as_ptr() as usize); }
    { let s: &[()] = &a; view("deref", s.len(), s.as_ptr() as usize); }
    { let s: &mut [()] = &mut a; view("deref_mut", s.len(), s.as_ptr() as usize); }
    { let s: &[()] = a.as_ref(); view("as_ref", s.len(), s.as_ptr() as usize); }
    { let s: &mut [()] = a.as_mut(); view("as_mut", s.len(), s.as_ptr() as usize); }
    { let s: &[()] = a.borrow(); view("borrow", s.len(), s.as_ptr() as usize); }
    { let s: &mut [()] = a.borrow_mut(); view("borrow_mut", s.len(), s.as_ptr() as usize); }
    { let it = a.iter(); view("iter", it.len(), it.as_slice().as_ptr() as usize); }
    { let it = (&a).into_iter(); view("ref_into_iter", it.len(), it.as_slice().as_ptr() as usize); }
    { let it = (&mut a).into_iter(); view("mut_into_iter", it.len(), base); }
    // reinterpretation of slices of exactly N, one fewer and (where it exists) one more
    let mk = |l: usize| -> &'static [()] { unsafe { std::slice::from_raw_parts(std::ptr::NonNull::<()>::dangling().as_ptr(), l) } };
    let exact = mk(n);
    let exact_ok = GenericArray::<(), N>::try_from_slice(exact).map(|g| g.len() == n && g as *const _ as usize == exact.as_ptr() as usize).unwrap_or(false);
    let from_ok = std::panic::catch_unwind(|| GenericArray::<(), N>::from_slice(mk(N::USIZE)).len() == N::USIZE).unwrap_or(false);
    let tryfrom_ok = <&GenericArray<(), N>>::try_from(exact).is_ok();
    let short_err = GenericArray::<(), N>::try_from_slice(mk(n - 1)).is_err() && <&GenericArray<(), N>>::try_from(mk(n - 1)).is_err();
    let short_panics = std::panic::catch_unwind(|| { let _ = GenericArray::<(), N>::from_slice(mk(N::USIZE - 1)); }).is_err();
    let long_err = n == usize::MAX || (GenericArray::<(), N>::try_from_slice(mk(n + 1)).is_err() && std::panic::catch_unwind(|| { let _ = GenericArray::<(), N>::from_slice(mk(N::USIZE + 1)); }).is_err());
    ev!("\"ev\":\"zstviews\",\"n_hi\":{},\"n_lo\":{},\"views\":[{}],\"exact_ok\":{},\"short_rejected\":{},\"long_rejected\":{}",
        (n as u64) >> 32, (n as u64) & 0xffff_ffff, views.join(","), exact_ok && from_ok && tryfrom_ok, short_err && short_panics, long_err);
}

/// the by-value iterator over arrays of zero-sized elements longer than 32 bits / isize::MAX (C06): only O(1) steps;
/// every length is recorded as its DEFICIT N - len (wrapping), a small number when right
fn zstiter<N: ArrayLength>() {
    let n = N::USIZE;
    let a: GenericArray<(), N> = unsafe { GenericArray::assume_init(GenericArray::<(), N>::uninit()) };
    let mut it = a.into_iter();
    let mut steps: Vec<String> = Vec::new();
    // (TLC's integers have 32 bits: anything that is not small is recorded as -1 rather than left to wrap)
    let def = |x: usize| { let d = n.wrapping_sub(x); if d > (1 << 30) { -1 } else { d as i64 } };
    macro_rules! step {
        ($name:expr, $arg:expr, $some:expr) => {{
            let some: bool = $some;
            let (lo, hi) = it.size_hint();
            steps.push(format!("{{\"op\":\"{}\",\"arg\":{},\"some\":{},\"len\":{},\"lo\":{},\"hi\":{},\"slice\":{},\"mslice\":{}}}",
                $name, $arg, some, def(it.len()), def(lo), hi.map(def).unwrap_or(-1), def(it.as_slice().len()), def(it.as_mut_slice().len())));
        }};
    }
    step!("start", 0, true);
    step!("next", 0, it.next().is_some());
    step!("next_back", 0, it.next_back().is_some());
    step!("nth", 0, it.nth(0).is_some());
    step!("nth", 7, it.nth(7).is_some());
    step!("nth_back", 0, it.nth_back(0).is_some());
    step!("nth_back", 1000, it.nth_back(1000).is_some());
    step!("nth", 65536, it.nth(65536).is_some());
    step!("next", 0, it.next().is_some());
    let count = def(it.count());
    let b: GenericArray<(), N> = unsafe { GenericArray::assume_init(GenericArray::<(), N>::uninit()) };
    let last_some = b.into_iter().last().is_some();
    ev!("\"ev\":\"zstiter\",\"n_hi\":{},\"n_lo\":{},\"steps\":[{}],\"count\":{},\"last_some\":{}", (n as u64) >> 32, (n as u64) & 0xffff_ffff, steps.join(","), count, last_some);
}

/// the length-changing operations on arrays of zero-sized elements longer than 32 bits / isize::MAX (C09): all of them are
/// O(1) there; result lengths are recorded relative to N (wrapping, -1000000 when not small), small results absolutely
macro_rules! zstseq_impl {
    ($name:ident, $N:ty) => {
        fn $name() {
            use generic_array::sequence::{Concat, Lengthen, Remove, Shorten, Split};
            use generic_array::typenum::{U3, U5};
            type N = $N;
            let n = <N as generic_array::typenum::Unsigned>::USIZE;
            let mk = || -> GenericArray<(), N> { unsafe { GenericArray::assume_init(GenericArray::<(), N>::uninit()) } };
            let rel = |x: usize| -> i64 { let d = x.wrapping_sub(n) as i64; if d > 1_000_000 || d < -1_000_000 { -1_000_000 } else { d } };
            let mut ops: Vec<String> = Vec::new();
            let mut op = |name: &str, outs: Vec<i64>, small: Vec<usize>, panicked: bool| {
                ops.push(format!("{{\"op\":\"{}\",\"outs\":{:?},\"small\":{:?},\"panicked\":{}}}", name, outs, small, panicked));
            };
            op("append", vec![rel(mk().append(()).len())], vec![], false);
            op("prepend", vec![rel(mk().prepend(()).len())], vec![], false);
            op("pop_back", vec![rel(mk().pop_back().0.len())], vec![], false);
            op("pop_front", vec![rel(mk().pop_front().1.len())], vec![], false);
            { let (a, b) = Split::<(), U5>::split(mk()); op("split5", vec![rel(b.len())], vec![a.len()], false); }
            { let a = mk(); let (x, y) = Split::<(), U5>::split(&a); op("split5_ref", vec![rel(y.len())], vec![x.len()], false); }
            { let r = Concat::concat(mk(), GenericArray::<(), U3>::default()); op("concat3", vec![rel(r.len())], vec![], false); }
            { let r = Concat::concat(GenericArray::<(), U3>::default(), mk()); op("concat3_front", vec![rel(r.len())], vec![], false); }
            op("remove7", vec![rel(mk().remove(7).1.len())], vec![], false);
            op("remove_last", vec![rel(mk().remove(n - 1).1.len())], vec![], false);
            op("swap_remove7", vec![rel(mk().swap_remove(7).1.len())], vec![], false);
            op("swap_remove_last", vec![rel(mk().swap_remove(n - 1).1.len())], vec![], false);
            let p = std::panic::catch_unwind(|| { let a: GenericArray<(), N> = unsafe { GenericArray::assume_init(GenericArray::<(), N>::uninit()) }; a.remove(<N as generic_array::typenum::Unsigned>::USIZE).1.len() }).is_err();
            op("remove_at_n", vec![], vec![], p);
            let p = std::panic::catch_unwind(|| { let a: GenericArray<(), N> = unsafe { GenericArray::assume_init(GenericArray::<(), N>::uninit()) }; a.swap_remove(<N as generic_array::typenum::Unsigned>::USIZE).1.len() }).is_err();
            op("swap_remove_at_n", vec![], vec![], p);
            ev!("\"ev\":\"zstseq\",\"n_hi\":{},\"n_lo\":{},\"ops\":[{}]", (n as u64) >> 32, (n as u64) & 0xffff_ffff, ops.join(","));
        }
    };
}
zstseq_impl!(zstseq_2_32, generic_array::typenum::U4294967296);
zstseq_impl!(zstseq_2_32_5, generic_array::typenum::Sum<generic_array::typenum::U4294967296, generic_array::typenum::U5>);
zstseq_impl!(zstseq_2_63, generic_array::typenum::U9223372036854775808);

pub fn run_case(scn: &J) {
    // with d.rec the allocator calls of the construction are part of the trace (layouts of multi-MiB blocks)
    let rec = scn["d"]["rec"].as_bool().unwrap_or(false);
    ev!("\"ev\":\"case_start\",\"case\":{},\"prop\":{},\"ety\":\"plain\",\"rec\":{}", crate::events::jstr(scn["case"].as_str().unwrap_or("")), crate::events::jstr(scn["prop"].as_str().unwrap_or("")), rec);
    if rec {
        crate::alloc::reset();
    }
    crate::events::flush();
    let op = scn["d"]["op"].as_str().unwrap().to_string();
    let shape = scn["d"]["shape"].as_str().unwrap().to_string();
    let arg = scn["d"]["arg"].as_u64().unwrap_or(0) as usize;
    if op == "bigseq" || op == "bigserde" || op == "zsthuge" || op == "zstviews" || op == "zstiter" || op == "zstseq" {
        use generic_array::typenum::{Sum, U1, U2, U2048, U3, U4096, U5, U7, U8192, U4294967296, U4611686018427387904, U9223372036854775807, U9223372036854775808};
        let sub = scn["d"]["sub"].as_str().unwrap_or("").to_string();
        let h = std::thread::Builder::new()
            .stack_size(64 << 20)
            .spawn(move || match (op.as_str(), shape.as_str()) {
                ("bigseq", "2048") => bigseq::<U2048>(&sub, arg),
                ("bigseq", "2049") => bigseq::<Sum<U2048, U1>>(&sub, arg),
                ("bigseq", "4097") => bigseq::<Sum<U4096, U1>>(&sub, arg),
                ("bigserde", "4097") => bigserde::<Sum<U4096, U1>>(),
                ("bigserde", "8192") => bigserde::<U8192>(),
                ("zsthuge", "1") => zsthuge::<U1>(&sub),
                ("zsthuge", "2") => zsthuge::<U2>(&sub),
                ("zsthuge", "3") => zsthuge::<U3>(&sub),
                ("zsthuge", "7") => zsthuge::<U7>(&sub),
                ("zstseq", "2^32") => zstseq_2_32(),
                ("zstseq", "2^32+5") => zstseq_2_32_5(),
                ("zstseq", "2^63") => zstseq_2_63(),
                ("zstiter", "2^32") => zstiter::<U4294967296>(),
                ("zstiter", "2^32+5") => zstiter::<Sum<U4294967296, U5>>(),
                ("zstiter", "2^63") => zstiter::<U9223372036854775808>(),
                ("zstiter", "2^64-1") => zstiter::<Sum<U9223372036854775808, U9223372036854775807>>(),
                ("zstviews", "2^32") => zstviews::<U4294967296>(),
                ("zstviews", "2^62") => zstviews::<U4611686018427387904>(),
                ("zstviews", "2^63-1") => zstviews::<U9223372036854775807>(),
                ("zstviews", "2^63") => zstviews::<U9223372036854775808>(),
                ("zstviews", "2^63+5") => zstviews::<Sum<U9223372036854775808, U5>>(),
                ("zstviews", "2^64-1") => zstviews::<Sum<U9223372036854775808, U9223372036854775807>>(),
                _ => panic!("HARNESS: big family {} {}", op, shape),
            })
            .expect("HARNESS: spawn");
        let ok = h.join().is_ok();
        ev!("\"ev\":\"big_done\",\"ok\":{}", ok);
        ev!("\"ev\":\"case_end\"");
        crate::events::flush();
        return;
    }
    let h = std::thread::Builder::new()
        .stack_size(256 * 1024)
        .spawn(move || {
            let _scope = if rec {
                crate::alloc::mark_worker_thread();
                crate::events::RECORD_ALLOC.store(true, std::sync::atomic::Ordering::SeqCst);
                Some(crate::alloc::LibScope::enter())
            } else {
                None
            };
            match shape.as_str() {
                "1m_u64" => build::<u64, U1048576>(&op, &shape),
                "256x16k" => build::<Big16k, U256>(&op, &shape),
                "64x16k" => build::<Big16k, U64>(&op, &shape),
                "32x16k" if op == "box_arr_list" => list32(&op, &shape),
                "32x16k" => build::<Big16k, U32>(&op, &shape),
                _ => panic!("HARNESS: big shape {}", shape),
            }
        })
        .expect("HARNESS: spawn");
    let ok = h.join().is_ok();
    crate::events::RECORD_ALLOC.store(false, std::sync::atomic::Ordering::SeqCst);
    ev!("\"ev\":\"big_done\",\"ok\":{}", ok);
    ev!("\"ev\":\"case_end\"");
    crate::events::flush();
}
