//! Auxiliary conformance drivers that need no ownership ledger: layout tables (C01), const-default and
//! zeroize (C19), hex formatting (C14), comparison / hashing / Debug (C13).
pub mod c19;
pub mod cmpd;
pub mod hexd;
pub mod layout;
pub mod tables;

use std::io::Write;

fn main() {
    let args: Vec<String> = std::env::args().collect();
    if args.len() < 4 {
        eprintln!("usage: gaaux <layout|c19|hex|cmp> <tier|scenario-file> <out>");
        std::process::exit(2);
    }
    let mut out = std::io::BufWriter::new(std::fs::File::create(&args[3]).expect("out"));
    match args[1].as_str() {
        "layout" => layout::run(&args[2], &mut out),
        "c19" => c19::run(&args[2], std::env::var("VERIF_SEED").ok().and_then(|s| s.parse().ok()).unwrap_or(1), &mut out),
        "hex" => hexd::run(&args[2], &mut out),
        "cmp" => cmpd::run(&args[2], &mut out),
        x => {
            eprintln!("unknown subcommand {}", x);
            std::process::exit(2);
        }
    }
    out.flush().unwrap();
}
