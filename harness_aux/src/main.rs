//! Auxiliary conformance drivers that need no ownership ledger: layout tables (C01), const-default and
//! zeroize (C19), hex formatting (C14), comparison / hashing / Debug (C13).
pub mod c19;
pub mod cmpd;
pub mod hexd;
pub mod layout;
pub mod tables;

use std::io::Write;

/// index of the scenario row / table being worked on (for the watchdog's message)
pub static ROW: std::sync::atomic::AtomicUsize = std::sync::atomic::AtomicUsize::new(0);

/// Termination watchdog: a formatting / comparison / zeroize call of the library that does not return is data.
/// When the output file has not grown for GAH_HANG_S seconds (default 60) while the run is not finished, the
/// process ends with exit code 86 and "@hang" on stderr; the runner records an `exit` event of class "hang".
fn watchdog(path: String) {
    let limit: u64 = std::env::var("GAH_HANG_S").ok().and_then(|s| s.parse().ok()).unwrap_or(60);
    std::thread::spawn(move || {
        let mut last = (u64::MAX, usize::MAX);
        let mut idle_ms = 0u64;
        loop {
            std::thread::sleep(std::time::Duration::from_millis(250));
            let now = (std::fs::metadata(&path).map(|m| m.len()).unwrap_or(0), ROW.load(std::sync::atomic::Ordering::Relaxed));
            if now != last {
                last = now;
                idle_ms = 0;
            } else {
                idle_ms += 250;
                if idle_ms >= limit * 1000 {
                    eprintln!("@hang no output for {} s while working on row {}: a call did not return", limit, now.1);
                    std::process::exit(86);
                }
            }
        }
    });
}

fn main() {
    let args: Vec<String> = std::env::args().collect();
    if args.len() < 4 {
        eprintln!("usage: gaaux <layout|c19|hex|cmp> <tier|scenario-file> <out>");
        std::process::exit(2);
    }
    watchdog(args[3].clone());
    let mut out = std::io::BufWriter::new(std::fs::File::create(&args[3]).expect("out"));
    match args[1].as_str() {
        "layout" => layout::run(&args[2], &mut out),
        "c19" => c19::run(&args[2], std::env::var("VERIF_SEED").ok().and_then(|s| s.parse().ok()).unwrap_or(1), &mut out),
        "hex" => hexd::run(&args[2], &mut out),
        "cmp" => cmpd::run(&args[2], &mut out),
        x => {
            eprintln!("unknown subcommand {}", x);
            std::process::exit(2);
        }
    }
    out.flush().unwrap();
}
