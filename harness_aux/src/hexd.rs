//! C14: hex formatting of byte arrays, every length across the three internal strategies.
use generic_array::typenum::*;
use generic_array::{ArrayLength, GenericArray};
use std::io::Write;
use std::ops::Add;

fn byte(pat: &str, i: usize) -> u8 {
    match pat {
        "zero" => 0,
        "ff" => 255,
        "all" => (i % 256) as u8,
        _ => ((7 * i + 3) % 256) as u8,
    }
}

/// a sink of fixed capacity: a piece that does not fit is refused as a whole (and a later, smaller one may fit)
struct Bounded {
    cap: usize,
    buf: String,
    failed: bool,
    calls: usize,
}
impl std::fmt::Write for Bounded {
    fn write_str(&mut self, s: &str) -> std::fmt::Result {
        self.calls += 1;
        if self.buf.len() + s.len() > self.cap {
            self.failed = true;
            return Err(std::fmt::Error);
        }
        self.buf.push_str(s);
        Ok(())
    }
}

fn one<N>(n: usize, prec: i64, upper: bool, pat: &str, spec: &str, out: &mut dyn Write)
where
    N: ArrayLength + Add<N>,
    Sum<N, N>: ArrayLength,
{
    use generic_array::sequence::GenericSequence;
    let a: Box<GenericArray<u8, N>> = Box::<GenericArray<u8, N>>::generate(|i| byte(pat, i));
    if spec == "smallstack" {
        // a large array formatted on a thread with a 256 KiB stack: the formatter's own frame must not grow with N
        // (a stack overflow ends the process; the runner records the exit, which no action of the specification explains)
        let p = prec.max(0) as usize;
        let neg = prec < 0;
        let h = std::thread::Builder::new()
            .stack_size(256 * 1024)
            .spawn(move || match (neg, upper) {
                (true, false) => format!("{:x}", *a),
                (true, true) => format!("{:X}", *a),
                (false, false) => format!("{:.1$x}", *a, p),
                (false, true) => format!("{:.1$X}", *a, p),
            })
            .expect("HARNESS: spawn");
        let s = h.join().expect("HARNESS: join");
        let codes: Vec<String> = s.bytes().map(|b| b.to_string()).collect();
        writeln!(out, "{{\"ev\":\"hex\",\"n\":{},\"prec\":{},\"upper\":{},\"pat\":\"{}\",\"spec\":\"{}\",\"out\":[{}]}}", n, prec, upper, pat, spec, codes.join(",")).unwrap();
        out.flush().unwrap();
        return;
    }
    if let Some(cap) = spec.strip_prefix("sink:") {
        use std::fmt::Write as _;
        let mut b = Bounded { cap: cap.parse().unwrap(), buf: String::new(), failed: false, calls: 0 };
        let p = prec.max(0) as usize;
        let r = match (prec < 0, upper) {
            (true, false) => write!(b, "{:x}", *a),
            (true, true) => write!(b, "{:X}", *a),
            (false, false) => write!(b, "{:.1$x}", *a, p),
            (false, true) => write!(b, "{:.1$X}", *a, p),
        };
        let codes: Vec<String> = b.buf.bytes().map(|x| x.to_string()).collect();
        writeln!(out, "{{\"ev\":\"hexsink\",\"n\":{},\"prec\":{},\"upper\":{},\"pat\":\"{}\",\"cap\":{},\"ok\":{},\"failed\":{},\"calls\":{},\"out\":[{}]}}",
            n, prec, upper, pat, b.cap, r.is_ok(), b.failed, b.calls, codes.join(",")).unwrap();
        return;
    }
    let w = 2 * n + 5;
    let p = prec.max(0) as usize;
    let s = match (spec, prec < 0, upper) {
        ("", true, false) => format!("{:x}", *a),
        ("", true, true) => format!("{:X}", *a),
        ("", false, false) => format!("{:.1$x}", *a, p),
        ("", false, true) => format!("{:.1$X}", *a, p),
        // width, fill, alignment, sign-aware zero padding and the alternate flag: digits only, nothing else
        ("w", true, false) => format!("{:1$x}", *a, w),
        ("w", true, true) => format!("{:1$X}", *a, w),
        ("w", false, false) => format!("{:1$.2$x}", *a, w, p),
        ("w", false, true) => format!("{:1$.2$X}", *a, w, p),
        ("fill", true, false) => format!("{:*^1$x}", *a, w),
        ("fill", true, true) => format!("{:*^1$X}", *a, w),
        ("fill", false, false) => format!("{:*<1$.2$x}", *a, w, p),
        ("fill", false, true) => format!("{:*>1$.2$X}", *a, w, p),
        ("zero", true, false) => format!("{:01$x}", *a, w),
        ("zero", true, true) => format!("{:01$X}", *a, w),
        ("zero", false, false) => format!("{:01$.2$x}", *a, w, p),
        ("zero", false, true) => format!("{:01$.2$X}", *a, w, p),
        ("alt", true, false) => format!("{:#x}", *a),
        ("alt", true, true) => format!("{:#X}", *a),
        ("alt", false, false) => format!("{:#.1$x}", *a, p),
        ("alt", false, true) => format!("{:#.1$X}", *a, p),
        _ => panic!("HARNESS: hex spec {}", spec),
    };
    let codes: Vec<String> = s.bytes().map(|b| b.to_string()).collect();
    writeln!(out, "{{\"ev\":\"hex\",\"n\":{},\"prec\":{},\"upper\":{},\"pat\":\"{}\",\"spec\":\"{}\",\"out\":[{}]}}", n, prec, upper, pat, spec, codes.join(",")).unwrap();
}

macro_rules! dispatch {
    ($n:expr, $prec:expr, $upper:expr, $pat:expr, $spec:expr, $out:expr; $($k:literal => $t:ty),* $(,)?) => {
        match $n { $( $k => one::<$t>($k, $prec, $upper, $pat, $spec, $out), )* _ => panic!("HARNESS: hex length {}", $n) }
    };
}

pub fn run(scn: &str, out: &mut dyn Write) {
    let text = std::fs::read_to_string(scn).expect("scn");
    writeln!(out, "{{\"ev\":\"case_start\",\"case\":\"hex\",\"prop\":\"C14\",\"ety\":\"plain\",\"rec\":false}}").unwrap();
    for (row, line) in text.lines().enumerate() {
        crate::ROW.store(row, std::sync::atomic::Ordering::Relaxed);
        // scenario line: n prec upper pat   (whitespace separated)
        let f: Vec<&str> = line.split_whitespace().collect();
        if f.len() < 4 {
            continue;
        }
        let n: usize = f[0].parse().unwrap();
        let prec: i64 = f[1].parse().unwrap();
        let upper = f[2] == "1";
        let pat = f[3];
        let spec = if f.len() > 4 { f[4] } else { "" };
        dispatch!(n, prec, upper, pat, spec, out;
            0 => U0, 1 => U1, 2 => U2, 3 => U3, 4 => U4, 5 => U5, 6 => U6, 7 => U7, 8 => U8, 9 => U9, 10 => U10, 11 => U11, 12 => U12,
            13 => U13, 14 => U14, 15 => U15, 16 => U16, 17 => U17, 31 => U31, 32 => U32, 33 => U33, 63 => U63, 64 => U64, 65 => U65,
            255 => U255, 256 => U256, 257 => Sum<U256, U1>, 511 => U511, 512 => U512, 1000 => U1000,
            1023 => U1023, 1024 => U1024, 1025 => Sum<U1024, U1>, 2047 => U2047, 2048 => U2048, 2049 => Sum<U2048, U1>,
            3000 => Prod<U1000, U3>, 3072 => Prod<U1024, U3>, 3073 => Sum<Prod<U1024, U3>, U1>, 4096 => U4096, 5000 => Prod<U1000, U5>,
            1536 => Sum<U1024, U512>, 6144 => Prod<U2048, U3>, 8192 => U8192, 10000 => U10000,
            131072 => U131072, 1048576 => U1048576);
    }
    writeln!(out, "{{\"ev\":\"case_end\"}}").unwrap();
}
