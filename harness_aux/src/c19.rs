//! C19: zeroize and const-default reach every one of the N elements.
use const_default::ConstDefault;
use generic_array::typenum::*;
use generic_array::{ArrayLength, GenericArray};
use std::io::Write;
use zeroize::Zeroize;

pub trait Code {
    fn code(&self) -> i64;
    fn junk(seed: u64) -> Self; // a value that is neither the default nor the zeroized one
}
impl Code for u8 {
    fn code(&self) -> i64 {
        *self as i64
    }
    fn junk(s: u64) -> u8 {
        (s % 250) as u8 + 1
    }
}
impl Code for u64 {
    fn code(&self) -> i64 {
        (*self % 1_000_000) as i64
    }
    fn junk(s: u64) -> u64 {
        s % 999_000 + 1
    }
}
impl Code for [u8; 3] {
    fn code(&self) -> i64 {
        self[0] as i64 * 65536 + self[1] as i64 * 256 + self[2] as i64
    }
    fn junk(s: u64) -> [u8; 3] {
        [(s % 200) as u8 + 1, 2, (s % 7) as u8 + 1]
    }
}
impl Code for GenericArray<u8, U2> {
    fn code(&self) -> i64 {
        self[0] as i64 * 256 + self[1] as i64
    }
    fn junk(s: u64) -> Self {
        GenericArray::from([(s % 200) as u8 + 1, (s % 13) as u8 + 1])
    }
}
/// default and zeroized values differ per field
#[derive(Clone, PartialEq, Debug)]
pub struct DZ {
    a: u8,
    b: u32,
}
impl Default for DZ {
    fn default() -> DZ {
        DZ { a: 7, b: 9 }
    }
}
impl ConstDefault for DZ {
    const DEFAULT: DZ = DZ { a: 7, b: 9 };
}
impl Zeroize for DZ {
    fn zeroize(&mut self) {
        self.a.zeroize();
        self.b.zeroize();
    }
}
impl Code for DZ {
    fn code(&self) -> i64 {
        self.a as i64 * 1000 + self.b as i64
    }
    fn junk(s: u64) -> DZ {
        DZ { a: (s % 200) as u8 + 10, b: (s % 500) as u32 + 10 }
    }
}

/// zeroizes to a sentinel, not to all-zero bytes
#[derive(Clone, PartialEq, Debug)]
pub struct Sent(u32);
impl Default for Sent {
    fn default() -> Sent {
        Sent(5)
    }
}
impl ConstDefault for Sent {
    const DEFAULT: Sent = Sent(5);
}
impl Zeroize for Sent {
    fn zeroize(&mut self) {
        self.0 = 0xABCD;
    }
}
impl Code for Sent {
    fn code(&self) -> i64 {
        self.0 as i64
    }
    fn junk(s: u64) -> Sent {
        Sent((s % 1000) as u32 + 100)
    }
}

/// zero-sized element: nothing to overwrite, but its Zeroize is still a call the array owes each element
pub struct ZCnt;
static ZCALLS: std::sync::atomic::AtomicUsize = std::sync::atomic::AtomicUsize::new(0);
impl Zeroize for ZCnt {
    fn zeroize(&mut self) {
        ZCALLS.fetch_add(1, std::sync::atomic::Ordering::SeqCst);
    }
}
fn zst_calls<N: ArrayLength>(out: &mut dyn Write) {
    use generic_array::sequence::GenericSequence;
    use std::sync::atomic::Ordering::SeqCst;
    let mut a: GenericArray<ZCnt, N> = GenericArray::generate(|_| ZCnt);
    ZCALLS.store(0, SeqCst);
    a.zeroize();
    let flat = ZCALLS.load(SeqCst);
    let mut native: Vec<ZCnt> = (0..N::USIZE).map(|_| ZCnt).collect();
    ZCALLS.store(0, SeqCst);
    native.iter_mut().zeroize();
    let reference = ZCALLS.load(SeqCst);
    // rows of zero-sized elements: 3 per row
    let mut nested: GenericArray<GenericArray<ZCnt, U3>, N> = GenericArray::generate(|_| GenericArray::generate(|_| ZCnt));
    ZCALLS.store(0, SeqCst);
    nested.zeroize();
    let nest = ZCALLS.load(SeqCst);
    writeln!(out, "{{\"ev\":\"zcalls\",\"ty\":\"zst_counted\",\"n\":{},\"calls\":{},\"slice_calls\":{},\"nested_calls\":{}}}", N::USIZE, flat, reference, nest).unwrap();
}

/// one-byte and eight-byte elements that zeroize to a marker, not to zero bytes (a bulk wipe of the storage is not
/// the element-wise zeroize the trait promises)
macro_rules! sentinel {
    ($name:ident, $t:ty, $def:expr, $wiped:expr) => {
        #[derive(Clone, PartialEq, Debug)]
        pub struct $name($t);
        impl Default for $name {
            fn default() -> $name {
                $name($def)
            }
        }
        impl ConstDefault for $name {
            const DEFAULT: $name = $name($def);
        }
        impl Zeroize for $name {
            fn zeroize(&mut self) {
                self.0 = $wiped;
            }
        }
        impl Code for $name {
            fn code(&self) -> i64 {
                self.0 as i64
            }
            fn junk(s: u64) -> $name {
                $name(((s % 100) + 10) as $t)
            }
        }
    };
}
sentinel!(Sent8, u8, 5, 0xA5);
sentinel!(Sent16, u16, 5, 0xA5A5);
sentinel!(Sent64, u64, 5, 0xABCDEF);

fn rle<T: Code>(s: &[T]) -> String {
    let mut out: Vec<(i64, usize)> = vec![];
    for x in s {
        let c = x.code();
        match out.last_mut() {
            Some((v, k)) if *v == c => *k += 1,
            _ => out.push((c, 1)),
        }
    }
    format!("[{}]", out.iter().map(|(v, k)| format!("[{},{}]", v, k)).collect::<Vec<_>>().join(","))
}

fn one<T, N>(ty: &str, seed: u64, out: &mut dyn Write)
where
    T: Code + ConstDefault + Default + Zeroize + PartialEq + Clone,
    N: ArrayLength,
    GenericArray<T, N>: ConstDefault,
{
    use generic_array::sequence::GenericSequence;
    let n = N::USIZE;
    // evaluated by the const evaluator (inline const) and at run time
    let in_const: Box<GenericArray<T, N>> = Box::new(const { GenericArray::<T, N>::const_default() });
    let assoc: Box<GenericArray<T, N>> = Box::new(<GenericArray<T, N> as ConstDefault>::DEFAULT);
    let at_run: Box<GenericArray<T, N>> = Box::new(GenericArray::<T, N>::const_default());
    let dflt: Box<GenericArray<T, N>> = Box::<GenericArray<T, N>>::generate(|_| T::default());
    let defval = T::DEFAULT.code();
    let same = in_const.as_slice() == at_run.as_slice() && assoc.as_slice() == at_run.as_slice();
    writeln!(out, "{{\"ev\":\"cdef\",\"ty\":\"{}\",\"n\":{},\"defval\":{},\"rle\":{},\"eq_default\":{},\"const_eq_runtime\":{}}}", ty, n, defval, rle(in_const.as_slice()), in_const.as_slice() == dflt.as_slice(), same).unwrap();
    // zeroize over arbitrary prior contents
    let mut z: Box<GenericArray<T, N>> = Box::<GenericArray<T, N>>::generate(|i| T::junk(seed.wrapping_mul(6364136223846793005).wrapping_add((i as u64).wrapping_mul(1442695040888963407)) >> 7));
    let mut zero = T::default();
    zero.zeroize();
    z.zeroize();
    writeln!(out, "{{\"ev\":\"zeroize\",\"ty\":\"{}\",\"n\":{},\"zeroval\":{},\"rle\":{}}}", ty, n, zero.code(), rle(z.as_slice())).unwrap();
}

macro_rules! lens {
    ($t:ty, $name:expr, $seed:expr, $out:expr; $($n:ident),*) => { $( one::<$t, $n>($name, $seed, $out); )* };
}
macro_rules! all_lens {
    ($t:ty, $name:expr, $seed:expr, $out:expr, $tier:expr) => {
        lens!($t, $name, $seed, $out; U0, U1, U2, U3, U4, U5, U6, U7, U8, U9, U10, U11, U12, U13, U14, U15, U16, U17, U31, U32, U33, U63, U64, U97, U127, U128, U255, U256, U1023, U1024);
        if $tier != "quick" {
            lens!($t, $name, $seed, $out; U18, U19, U20, U21, U22, U23, U24, U25, U26, U27, U28, U29, U30, U34, U35, U36, U37, U38, U39, U40, U41, U42, U43, U44, U45, U46, U47, U48, U49, U50,
                  U51, U52, U53, U54, U55, U56, U57, U58, U59, U60, U61, U62, U65, U100, U341, U511, U512, U682, U1000);
        }
    };
}

pub fn run(tier: &str, seed: u64, out: &mut dyn Write) {
    writeln!(out, "{{\"ev\":\"case_start\",\"case\":\"c19\",\"prop\":\"C19\",\"ety\":\"plain\",\"rec\":false}}").unwrap();
    all_lens!(u8, "u8", seed, out, tier);
    all_lens!(u64, "u64", seed, out, tier);
    all_lens!([u8; 3], "b3", seed, out, tier);
    all_lens!(GenericArray<u8, U2>, "ga_u8_2", seed, out, tier);
    all_lens!(DZ, "dz", seed, out, tier);
    all_lens!(Sent, "sentinel", seed, out, tier);
    all_lens!(Sent8, "sentinel8", seed, out, tier);
    all_lens!(Sent16, "sentinel16", seed, out, tier);
    all_lens!(Sent64, "sentinel64", seed, out, tier);
    macro_rules! zl { ($($n:ident),*) => { $( zst_calls::<$n>(out); )* }; }
    zl!(U0, U1, U2, U3, U4, U5, U6, U7, U8, U9, U15, U16, U17, U31, U32, U33, U64, U97, U1024);
    writeln!(out, "{{\"ev\":\"case_end\"}}").unwrap();
}
