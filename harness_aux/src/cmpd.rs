//! C13: comparison, hashing, Debug of arrays versus the slices of the same elements.
use generic_array::typenum::{U0, U1, U16, U2, U3, U4, U5, U97};
use generic_array::{ArrayLength, GenericArray};
use std::cmp::Ordering;
use std::collections::{BTreeMap, HashMap};
use std::hash::{Hash, Hasher};
use std::io::Write;

pub trait CE: Sized + Clone + PartialOrd + PartialEq + std::fmt::Debug {
    fn of(code: i64) -> Self;
    /// the code an element was made from (inverse of `of` on the codes the drivers use)
    fn code(&self) -> i64 {
        -1
    }
    /// what hashing the same elements as a slice of NATIVE values feeds (an oracle that does not pass through this
    /// crate at all); None where the element type itself is from this crate and has no native twin here
    fn native_feed(_items: &[Self]) -> Option<Vec<i64>> {
        None
    }
}
impl CE for u8 {
    fn of(c: i64) -> u8 {
        c as u8
    }
    fn code(&self) -> i64 {
        *self as i64
    }
}
impl CE for i32 {
    fn of(c: i64) -> i32 {
        c as i32 - 1
    }
    fn code(&self) -> i64 {
        *self as i64 + 1
    }
}
impl CE for f64 {
    fn of(c: i64) -> f64 {
        if c == 9 { f64::NAN } else { c as f64 * 0.5 }
    }
}
impl CE for String {
    fn of(c: i64) -> String {
        ["", "a", "ab", "b"][(c as usize).min(3)].to_string()
    }
    fn code(&self) -> i64 {
        ["", "a", "ab", "b"].iter().position(|x| x == self).map(|p| p as i64).unwrap_or(-1)
    }
}
/// zero-sized element whose own Hash is not a no-op (it feeds its length prefix)
impl CE for GenericArray<u8, U0> {
    fn of(_c: i64) -> Self {
        GenericArray::default()
    }
}
impl CE for GenericArray<Zn, U2> {
    fn of(_c: i64) -> Self {
        GenericArray::from([Zn, Zn])
    }
}
impl CE for GenericArray<u8, U2> {
    fn of(c: i64) -> Self {
        GenericArray::from([c as u8 / 2, c as u8])
    }
    fn code(&self) -> i64 {
        self[1] as i64
    }
    fn native_feed(items: &[Self]) -> Option<Vec<i64>> {
        let native: Vec<[u8; 2]> = items.iter().map(|g| [g[0], g[1]]).collect();
        let mut h = RecHasher::default();
        native.as_slice().hash(&mut h);
        Some(h.0)
    }
}

/// zero-sized element that is equal to nothing and comparable with nothing, itself included (code 9 only)
#[derive(Clone, Debug)]
pub struct Zn;
impl PartialEq for Zn {
    fn eq(&self, _o: &Zn) -> bool {
        false
    }
}
impl PartialOrd for Zn {
    fn partial_cmp(&self, _o: &Zn) -> Option<Ordering> {
        None
    }
}
impl CE for Zn {
    fn of(c: i64) -> Zn {
        assert!(c == 9, "HARNESS: znan takes code 9 only");
        Zn
    }
}

/// a key whose total order (Ord: f64::total_cmp) is finer than its partial order (IEEE): -0.0 < +0.0 for cmp, equal for
/// partial_cmp; NaN has a place in cmp and none in partial_cmp.  Each trait method of the array must go to the same
/// trait method of the elements, as the slice does - the slice is the only oracle for this type.
#[derive(Clone, Copy, Debug)]
pub struct Tot(pub f64);
impl PartialEq for Tot {
    fn eq(&self, o: &Tot) -> bool {
        self.0 == o.0
    }
}
impl Eq for Tot {}
impl PartialOrd for Tot {
    fn partial_cmp(&self, o: &Tot) -> Option<Ordering> {
        self.0.partial_cmp(&o.0)
    }
}
impl Ord for Tot {
    fn cmp(&self, o: &Tot) -> Ordering {
        self.0.total_cmp(&o.0)
    }
}
fn tot_of(c: i64) -> Tot {
    Tot(match c { 0 => -0.0, 1 => 0.0, 2 => 1.5, _ => f64::NAN })
}
fn slice_agreement<N: ArrayLength>(a: &[i64], b: &[i64], out: &mut dyn Write) {
    use generic_array::sequence::GenericSequence;
    let x: GenericArray<Tot, N> = GenericArray::generate(|i| tot_of(a[i]));
    let y: GenericArray<Tot, N> = GenericArray::generate(|i| tot_of(b[i]));
    let (sx, sy) = (x.as_slice(), y.as_slice());
    let bits = |v: &[Tot]| -> Vec<i64> { v.iter().map(|t| (t.0.to_bits() >> 48) as i64).collect() };
    writeln!(
        out,
        "{{\"ev\":\"cmpslice\",\"a\":{},\"b\":{},\"cmp\":{},\"scmp\":{},\"pcmp\":{},\"spcmp\":{},\"eq\":{},\"seq\":{},\"lt\":{},\"slt\":{},\"ge\":{},\"sge\":{},\"max\":{},\"smax\":{},\"min\":{},\"smin\":{}}}",
        list(a), list(b), ord(Some(x.cmp(&y))), ord(Some(sx.cmp(sy))), ord(x.partial_cmp(&y)), ord(sx.partial_cmp(sy)), x == y, sx == sy, x < y, sx < sy, x >= y, sx >= sy,
        list(&bits(x.clone().max(y.clone()).as_slice())), list(&bits(std::cmp::max(sx, sy))), list(&bits(x.clone().min(y.clone()).as_slice())), list(&bits(std::cmp::min(sx, sy)))
    )
    .unwrap();
}

fn ord(o: Option<Ordering>) -> i64 {
    match o {
        Some(Ordering::Less) => -1,
        Some(Ordering::Equal) => 0,
        Some(Ordering::Greater) => 1,
        None => 2,
    }
}

/// records every call made to it
#[derive(Default)]
pub struct RecHasher(pub Vec<i64>);
impl Hasher for RecHasher {
    fn finish(&self) -> u64 {
        0
    }
    fn write(&mut self, bytes: &[u8]) {
        self.0.push(3);
        self.0.push(bytes.len() as i64);
        self.0.extend(bytes.iter().map(|b| *b as i64));
    }
    fn write_u8(&mut self, i: u8) {
        self.0.push(2);
        self.0.push(i as i64);
    }
    fn write_usize(&mut self, i: usize) {
        self.0.push(1);
        self.0.push(i as i64);
    }
    fn write_i32(&mut self, i: i32) {
        self.0.push(4);
        self.0.push(i as i64);
    }
}

fn list(v: &[i64]) -> String {
    format!("[{}]", v.iter().map(|x| x.to_string()).collect::<Vec<_>>().join(","))
}

fn pair<T: CE, N: ArrayLength>(ety: &str, a: &[i64], b: &[i64], total: bool, out: &mut dyn Write) {
    use generic_array::sequence::GenericSequence;
    let x: GenericArray<T, N> = GenericArray::generate(|i| T::of(a[i]));
    let y: GenericArray<T, N> = GenericArray::generate(|i| T::of(b[i]));
    let (sx, sy) = (x.as_slice(), y.as_slice());
    let _ = total;
    writeln!(
        out,
        "{{\"ev\":\"cmp\",\"ety\":\"{}\",\"a\":{},\"b\":{},\"self_eq\":{},\"self_ne\":{},\"self_pcmp\":{},\"sself_eq\":{},\"eq\":{},\"ne\":{},\"lt\":{},\"le\":{},\"gt\":{},\"ge\":{},\"pcmp\":{},\"seq\":{},\"sne\":{},\"slt\":{},\"sle\":{},\"sgt\":{},\"sge\":{},\"spcmp\":{}}}",
        ety, list(a), list(b), { let r = &x; r == r }, { let r = &x; r != r }, { let r = &x; ord(r.partial_cmp(r)) }, { let r = sx; r == r }, x == y, x != y, x < y, x <= y, x > y, x >= y, ord(x.partial_cmp(&y)),
        sx == sy, sx != sy, sx < sy, sx <= sy, sx > sy, sx >= sy, ord(sx.partial_cmp(sy))
    )
    .unwrap();
}

fn ordpair<T: CE + Ord + Hash + Eq, N: ArrayLength>(ety: &str, a: &[i64], b: &[i64], out: &mut dyn Write) {
    use generic_array::sequence::GenericSequence;
    let x: GenericArray<T, N> = GenericArray::generate(|i| T::of(a[i]));
    let y: GenericArray<T, N> = GenericArray::generate(|i| T::of(b[i]));
    let mut h1 = RecHasher::default();
    x.hash(&mut h1);
    let mut h2 = RecHasher::default();
    x.as_slice().hash(&mut h2);
    // lookup through Borrow<[T]>: the map holds x; probe with the slice of y
    let mut hm: HashMap<GenericArray<T, N>, u8> = HashMap::new();
    hm.insert(x.clone(), 1);
    let mut bt: BTreeMap<GenericArray<T, N>, u8> = BTreeMap::new();
    bt.insert(x.clone(), 1);
    let fh = hm.get(y.as_slice()).is_some();
    let fb = bt.get(y.as_slice()).is_some();
    // the provided methods of Ord, and hashing compared with native values where a native twin exists
    let mx: Vec<i64> = x.clone().max(y.clone()).iter().map(|e| e.code()).collect();
    let mn: Vec<i64> = x.clone().min(y.clone()).iter().map(|e| e.code()).collect();
    let nfeed = T::native_feed(x.as_slice()).unwrap_or_else(|| h2.0.clone());
    writeln!(
        out,
        "{{\"ev\":\"ordcmp\",\"ety\":\"{}\",\"a\":{},\"b\":{},\"cmp\":{},\"scmp\":{},\"hash\":{},\"shash\":{},\"nhash\":{},\"found_hash\":{},\"found_btree\":{},\"max\":{},\"min\":{}}}",
        ety, list(a), list(b), ord(Some(x.cmp(&y))), ord(Some(x.as_slice().cmp(y.as_slice()))), list(&h1.0), list(&h2.0), list(&nfeed), fh, fb, list(&mx), list(&mn)
    )
    .unwrap();
}

fn dbg<T: CE, N: ArrayLength>(ety: &str, a: &[i64], out: &mut dyn Write) {
    use generic_array::sequence::GenericSequence;
    let x: GenericArray<T, N> = GenericArray::generate(|i| T::of(a[i]));
    let s = x.as_slice();
    let fmts: Vec<(&str, String, String)> = vec![
        ("{:?}", format!("{:?}", x), format!("{:?}", s)),
        ("{:#?}", format!("{:#?}", x), format!("{:#?}", s)),
        ("{:8.3?}", format!("{:8.3?}", x), format!("{:8.3?}", s)),
        ("{:<6?}", format!("{:<6?}", x), format!("{:<6?}", s)),
        ("{:+.1?}", format!("{:+.1?}", x), format!("{:+.1?}", s)),
        ("{:#06x?}", format!("{:#x?}", x), format!("{:#x?}", s)),
        ("{:08.2?}", format!("{:08.2?}", x), format!("{:08.2?}", s)),
    ];
    for (f, a_, s_) in fmts {
        writeln!(out, "{{\"ev\":\"dbg\",\"ety\":\"{}\",\"fmt\":{:?},\"n\":{},\"arr\":{:?},\"slice\":{:?}}}", ety, f, a.len(), a_, s_).unwrap();
    }
}

macro_rules! by_len {
    ($n:expr, $N:ident => $body:expr) => {
        match $n {
            0 => { type $N = U0; $body }
            1 => { type $N = U1; $body }
            2 => { type $N = U2; $body }
            3 => { type $N = U3; $body }
            4 => { type $N = U4; $body }
            5 => { type $N = U5; $body }
            16 => { type $N = U16; $body }
            97 => { type $N = U97; $body }
            _ => panic!("HARNESS: cmp length"),
        }
    };
}

pub fn run(scn: &str, out: &mut dyn Write) {
    let text = std::fs::read_to_string(scn).expect("scn");
    writeln!(out, "{{\"ev\":\"case_start\",\"case\":\"cmp\",\"prop\":\"C13\",\"ety\":\"plain\",\"rec\":false}}").unwrap();
    for (row, line) in text.lines().enumerate() {
        crate::ROW.store(row, std::sync::atomic::Ordering::Relaxed);
        // ety a0,a1,.. b0,b1,..   ("-" for the empty sequence)
        let f: Vec<&str> = line.split_whitespace().collect();
        if f.len() < 3 {
            continue;
        }
        let p = |s: &str| -> Vec<i64> { if s == "-" { vec![] } else { s.split(',').map(|x| x.parse().unwrap()).collect() } };
        let (ety, a, b) = (f[0], p(f[1]), p(f[2]));
        let n = a.len();
        match ety {
            "u8" => by_len!(n, N => { pair::<u8, N>(ety, &a, &b, true, out); ordpair::<u8, N>(ety, &a, &b, out); if a == b { dbg::<u8, N>(ety, &a, out) } }),
            "i32" => by_len!(n, N => { pair::<i32, N>(ety, &a, &b, true, out); ordpair::<i32, N>(ety, &a, &b, out); if a == b { dbg::<i32, N>(ety, &a, out) } }),
            "f64" => by_len!(n, N => { pair::<f64, N>(ety, &a, &b, false, out); if a == b { dbg::<f64, N>(ety, &a, out) } }),
            "tot" => by_len!(n, N => slice_agreement::<N>(&a, &b, out)),
            "znan" => by_len!(n, N => { pair::<Zn, N>(ety, &a, &b, false, out); pair::<GenericArray<Zn, U2>, N>(ety, &a, &b, false, out); if a == b { dbg::<Zn, N>(ety, &a, out) } }),
            "string" => by_len!(n, N => { pair::<String, N>(ety, &a, &b, true, out); ordpair::<String, N>(ety, &a, &b, out); if a == b { dbg::<String, N>(ety, &a, out) } }),
            "nested0" => by_len!(n, N => { pair::<GenericArray<u8, U0>, N>(ety, &a, &b, true, out); ordpair::<GenericArray<u8, U0>, N>(ety, &a, &b, out); }),
            "nested" => by_len!(n, N => { pair::<GenericArray<u8, U2>, N>(ety, &a, &b, true, out); ordpair::<GenericArray<u8, U2>, N>(ety, &a, &b, out); if a == b { dbg::<GenericArray<u8, U2>, N>(ety, &a, out) } }),
            _ => panic!("HARNESS: cmp ety"),
        }
    }
    writeln!(out, "{{\"ev\":\"case_end\"}}").unwrap();
}
