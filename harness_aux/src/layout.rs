//! C01: what the real compiler says about GenericArray<T, N> versus [T; N].
use generic_array::{ArrayLength, GenericArray};
use std::mem::{align_of, size_of};

pub struct Rec {
    pub len: u64,
    pub n: u64,
    pub size: u64,
    pub align: u64,
    pub nsize: u64,
    pub nalign: u64,
}
pub fn r<T, N: ArrayLength, const C: usize>() -> Rec {
    Rec { len: GenericArray::<T, N>::len() as u64, n: N::U64, size: size_of::<GenericArray<T, N>>() as u64, align: align_of::<GenericArray<T, N>>() as u64, nsize: size_of::<[T; C]>() as u64, nalign: align_of::<[T; C]>() as u64 }
}
pub fn rbig<T, N: ArrayLength, const C: usize>() -> Rec {
    r::<T, N, C>()
}

#[repr(packed)]
pub struct Packed5(pub u8, pub u32);
#[repr(align(16))]
pub struct Align16(pub u8);
#[repr(align(32))]
pub struct Align32(pub u8);
#[repr(align(64))]
pub struct Align64(pub u8);
#[repr(align(64))]
pub struct ZAlign64;
#[repr(align(128))]
pub struct Align128(pub u8);
#[repr(align(4096))]
pub struct Align4096(pub u16);
#[repr(align(256))]
pub struct ZAlign256;
/// a field-less enum with the default representation
pub enum Enum3 {
    A,
    B,
    C,
}

pub fn limbs(mut x: u64) -> String {
    let mut v = vec![];
    while x > 0 {
        v.push((x % 1000).to_string());
        x /= 1000;
    }
    format!("[{}]", v.join(","))
}

pub fn type_layouts() -> Vec<(&'static str, u64, u64)> {
    fn t<T>(n: &'static str) -> (&'static str, u64, u64) {
        (n, size_of::<T>() as u64, align_of::<T>() as u64)
    }
    use generic_array::typenum::*;
    vec![
        t::<u8>("u8"), t::<u16>("u16"), t::<u32>("u32"), t::<u64>("u64"), t::<u128>("u128"), t::<f64>("f64"), t::<bool>("bool"), t::<char>("char"),
        t::<[u8; 3]>("b3"), t::<[u8; 24]>("b24"), t::<[u64; 8]>("w64x8"), t::<(u8, u16)>("t_u8_u16"), t::<(u8, u32, u8)>("t_u8_u32_u8"), t::<(u64, u8)>("t_u64_u8"),
        t::<Packed5>("packed5"), t::<Align16>("align16"), t::<Align32>("align32"), t::<Align64>("align64"),
        t::<()>("unit"), t::<[u64; 0]>("zarr_u64"), t::<ZAlign64>("zalign64"), t::<[u16; 0]>("zarr_u16"),
        t::<Align128>("align128"), t::<Align4096>("align4096"), t::<ZAlign256>("zalign256"),
        t::<GenericArray<u8, U3>>("ga_u8_3"), t::<GenericArray<u32, U5>>("ga_u32_5"), t::<GenericArray<(), U7>>("ga_unit_7"), t::<GenericArray<GenericArray<u16, U2>, U3>>("ga_ga"),
        t::<Option<u8>>("opt_u8"), t::<Option<u16>>("opt_u16"), t::<Option<bool>>("opt_bool"), t::<Result<u8, u8>>("res_u8"), t::<Enum3>("enum3"), t::<core::cmp::Ordering>("ordering"),
        t::<core::mem::MaybeUninit<u32>>("mu_u32"), t::<String>("string"), t::<Option<Box<u8>>>("optbox"), t::<usize>("usize"),
    ]
}

pub fn run(tier: &str, out: &mut dyn std::io::Write) {
    let tl = type_layouts();
    let quick = tier == "quick";
    for (name, small, big) in crate::tables::all() {
        let (_, tsize, talign) = *tl.iter().find(|x| x.0 == name).expect("type");
        writeln!(out, "{{\"ev\":\"case_start\",\"case\":\"layout-{}\",\"prop\":\"C01\",\"ety\":\"plain\",\"rec\":false}}", name).unwrap();
        let mut k = 0;
        for rec in small.iter().chain(big.iter()) {
            let n = rec.n;
            if quick && n > 64 && !(n.is_power_of_two() || (n + 1).is_power_of_two() || n == 97 || n == 1000 || n % 1000 == 0 && n > 1024 && n < 2048) && n <= 1024 {
                continue;
            }
            writeln!(out, "{{\"ev\":\"layout\",\"ty\":\"{}\",\"tsize\":{},\"talign\":{},\"n\":{},\"size\":{},\"align\":{},\"nsize\":{},\"nalign\":{},\"len\":{}}}",
                name, tsize, talign, limbs(rec.n), limbs(rec.size), rec.align, limbs(rec.nsize), rec.nalign, limbs(rec.len)).unwrap();
            k += 1;
        }
        let _ = k;
        writeln!(out, "{{\"ev\":\"case_end\"}}").unwrap();
    }
    offsets(out);
}

fn offs<T: Default, N: ArrayLength>(ty: &str, out: &mut dyn std::io::Write) {
    use generic_array::sequence::GenericSequence;
    let b: Box<GenericArray<T, N>> = Box::<GenericArray<T, N>>::generate(|_| T::default());
    let base = &*b as *const GenericArray<T, N> as usize;
    let n = N::USIZE;
    let mut idx = vec![0usize, 1, 2, n / 2, n.saturating_sub(2), n.saturating_sub(1)];
    idx.retain(|i| *i < n);
    idx.sort();
    idx.dedup();
    for i in idx {
        let off = &b.as_slice()[i] as *const T as usize - base;
        writeln!(out, "{{\"ev\":\"elemoff\",\"ty\":\"{}\",\"tsize\":{},\"n\":{},\"i\":{},\"off\":{}}}", ty, size_of::<T>(), n, i, off).unwrap();
    }
}

#[derive(Default)]
#[repr(align(16))]
pub struct DAlign16(pub u8);

fn offsets(out: &mut dyn std::io::Write) {
    use generic_array::typenum::*;
    writeln!(out, "{{\"ev\":\"case_start\",\"case\":\"elemoff\",\"prop\":\"C01\",\"ety\":\"plain\",\"rec\":false}}").unwrap();
    macro_rules! lens {
        ($t:ty, $name:expr) => {
            offs::<$t, U0>($name, out); offs::<$t, U1>($name, out); offs::<$t, U2>($name, out); offs::<$t, U3>($name, out); offs::<$t, U4>($name, out);
            offs::<$t, U5>($name, out); offs::<$t, U6>($name, out); offs::<$t, U7>($name, out); offs::<$t, U8>($name, out); offs::<$t, U9>($name, out);
            offs::<$t, U15>($name, out); offs::<$t, U16>($name, out); offs::<$t, U17>($name, out); offs::<$t, U31>($name, out); offs::<$t, U32>($name, out);
            offs::<$t, U33>($name, out); offs::<$t, U63>($name, out); offs::<$t, U64>($name, out); offs::<$t, U65>($name, out); offs::<$t, U97>($name, out);
            offs::<$t, U127>($name, out); offs::<$t, U128>($name, out); offs::<$t, U255>($name, out); offs::<$t, U256>($name, out); offs::<$t, U1000>($name, out);
            offs::<$t, U1023>($name, out); offs::<$t, U1024>($name, out); offs::<$t, U2047>($name, out); offs::<$t, U4096>($name, out);
        };
    }
    lens!(u8, "u8");
    lens!(u32, "u32");
    lens!(u64, "u64");
    lens!([u8; 3], "b3");
    lens!((u8, u16), "t_u8_u16");
    lens!(DAlign16, "dalign16");
    lens!((), "unit");
    lens!(GenericArray<u8, U3>, "ga_u8_3");
    lens!(String, "string");
    writeln!(out, "{{\"ev\":\"case_end\"}}").unwrap();
}
