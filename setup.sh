#!/bin/sh
# Offline setup: build the conformance harness from /repo's working tree and parse the specs.
set -e
cd "$(dirname "$0")"
mkdir -p work evidence
exec python3 check setup
